//! stream `rules` — C38: every rule of the era validators, alone (through `verif_hooks::rule_verdicts`) and composed
//! (`validate_txs`), on accepted scenarios and on scenarios changed by rule-specific mutators.
//!
//!   rl <era> <base> <mutator>* | V <rule>=<ok|Error>* | F <key>=<value>* | VAL .. | EX .. | WIT ..
//!
//! `<base>` = `fx:<fixture name>` or `sy:<era>[:<body option>]*` (a transaction synthesized with own keys, so that the
//! *body* can be varied and is signed again). Body options: `ins0` (no inputs) `ttl=<n>` `nottl` `start=<n>` `netid=<n>`
//! `outnet=<n>` (network of the first output address) `outcoin=<n>` (lovelace of the first output, the second one
//! balances) `auxhash` (aux-data hash without aux data) `aux` (aux data + matching hash) `auxbad` (aux data + wrong hash).
//! Mutators that leave the body alone: `slot=<n>` `envnet=<n>` `maxsize=<n>` `minfee=<a>:<b>` `coins=<n>` `maxval=<n>`
//! `maxcol=<n>` `pct=<n>` `nocost=<1|2|3>` (environment / protocol parameters), `dropin=<i>` `dropcol=<i>` `dropref=<i>`
//! `colscript=<i>` `colassets=<i>` `colcoin=<i>:<n>` (UTxO set), `dropwit=<k>` (field <k> of the witness set: 1 native
//! scripts, 3/6/7 Plutus v1/v2/v3 scripts, 4 datums, 5 redeemers, 0 key witnesses) `addred` `adddatum` (an extra redeemer /
//! datum in the witness set) `dropaux` `auxflip` (auxiliary data), `maxex=<mem>:<steps>` `costmut=<k>` (one number of the cost
//! model of language k changed: only the script-integrity hash notices) `incoin=<i>:<n>` (lovelace of the UTxO entry of input i).
//! Synth body options also: `mint` (5 tokens minted under a native-script policy, script and signature supplied) and
//! `mintnoscript` (the same without the policy script), `coll` (Alonzo+: a collateral input, no Plutus script), `ref` (Babbage+: a reference
//! input); options combine (`sy:babbage:ref:mint`), `req` / `reqnosig` (Alonzo+: a required signer with / without its key witness).
//! `colpaid=<pct>:<paid>` (collateral percentage and the coin of collateral input 0 set so that the paid collateral is exactly <paid>).
//! More mutators: `redmut` (mem + 1 in the first redeemer's execution units: only the script-integrity hash notices), `indatum=<i>` (an inline
//! datum on the UTxO entry of key-locked input i) and `refbyron=<i>` (reference input i's UTxO entry re-addressed to a Byron address): only
//! the language rule notices.
//! `V` = what each `check_*` of the era answers on its own (hook `rule_verdicts`, validator order); `F` = the plain
//! observations the Lean predicates are stated over (`Model/Rules.lean: View`). Both are produced by the generator for the
//! Lean side; `run_case` recomputes them. `F` also carries the script observations (hashes of witness-set and reference
//! scripts, script-locked inputs, minted policies, redeemer pointers, datum hashes, used languages, the pieces of the
//! script-integrity hash); `VAL` / `EX` / `WIT` = the views of the linked rule models of C34 / C37 / C35 in the notation of
//! their own streams (`value`, `exunits`, `witness`).
//! reply: `<ok | err Error> | <rule>=<0|1>*` — verdict of `validate_txs`, then the hook verdicts of the rules whose
//! predicate the model states. The model answers with the first failing rule of its composition and its own predicates.
//! Oracle (the property): a scenario on which some rule fails (stated predicate evaluated independently here, or a
//! mutator that removes something a rule demands) and that `validate_txs` accepts is a `!viol`.
use crate::fixtures::{self, params, synth, txparts, Fixture, InputRef, UtxoEntry};
use crate::fw::*;
use pallas_addresses::{Address, ShelleyPaymentPart};
use pallas_codec::minicbor::{self, data::Tag, Decoder, Encoder};
use pallas_crypto::hash::Hasher;
use pallas_traverse::{Era, MultiEraOutput, MultiEraTx};
use pallas_validate::phase1::{alonzo, babbage, byron, conway, shelley_ma};
use pallas_validate::utils::{self, MultiEraProtocolParameters as P, ValidationError};

pub const NAME: &str = "rules";

fn era_tok(f: &Fixture) -> &'static str {
    match f.era { Era::Byron => "byron", Era::Shelley | Era::Allegra | Era::Mary => "shelley", Era::Alonzo => "alonzo", Era::Babbage => "babbage", _ => "conway" }
}
fn err_tok(e: &ValidationError) -> String {
    let s = format!("{e:?}");
    let s: String = s.chars().take_while(|c| *c != '"').map(|c| if c.is_ascii_alphanumeric() { c } else { '-' }).collect();
    s.trim_matches('-').replace("--", "-").chars().take(60).collect()
}

// ------------------------------------------------------------------------------------------------ scenarios

/// synthesized base transaction for rule work: two key-locked inputs, two outputs, fee, TTL
fn build_synth(spec: &[&str]) -> Option<Fixture> {
    let era = match spec.first()? { &"shelley" => Era::Shelley, &"mary" => Era::Mary, &"alonzo" => Era::Alonzo, &"babbage" => Era::Babbage, &"conway" => Era::Conway, _ => return None };
    let opt = |k: &str| spec[1..].iter().find_map(|o| if *o == k { Some("") } else { o.strip_prefix(&format!("{k}=")) });
    let base = fixtures::by_name(synth::base_fixture_name(era))?;
    let mut f = Fixture { name: "synth", era, tx_cbor: vec![], utxo: vec![], env: fixtures::clone_env(&base.env), cert_state: Default::default() };
    params::set_max_tx_size(&mut f.env, 16384);
    let network = f.env.network_id;
    let conway = era == Era::Conway;
    let post = matches!(era, Era::Babbage | Era::Conway);
    let nin = if opt("ins0").is_some() { 0 } else { 2 };
    let fee = 400_000u64;
    let total = 10_000_000u64 * nin as u64;
    let out1: u64 = opt("outcoin").and_then(|v| v.parse().ok()).unwrap_or(3_000_000);
    let out2 = total.saturating_sub(fee).saturating_sub(out1);
    let aux: Option<Vec<u8>> = if opt("aux").is_some() || opt("auxbad").is_some() { let mut e = Encoder::new(Vec::new()); e.map(1).unwrap().u8(1).unwrap().str("verif").unwrap(); Some(e.into_writer()) } else { None };
    let aux_hash: Option<Vec<u8>> = if opt("auxhash").is_some() { Some(vec![0x11; 32]) } else if opt("auxbad").is_some() { Some(vec![0x22; 32]) } else { aux.as_ref().map(|a| Hasher::<256>::hash(a).as_ref().to_vec()) };
    let ttl: Option<u64> = if opt("nottl").is_some() { None } else { Some(opt("ttl").and_then(|v| v.parse().ok()).unwrap_or(f.env.block_slot + 1000)) };
    let start: Option<u64> = opt("start").and_then(|v| v.parse().ok());
    let netid: Option<u8> = opt("netid").and_then(|v| v.parse().ok());
    let minting = (opt("mint").is_some() || opt("mintnoscript").is_some()) && era != Era::Shelley;
    let req = (opt("req").is_some() || opt("reqnosig").is_some()) && matches!(era, Era::Alonzo | Era::Babbage | Era::Conway);
    let req_signed = req && opt("req").is_some();
    // structural variants: a collateral field (Alonzo+; no Plutus script, so the collateral rules stay off) and a reference input (Babbage+)
    let coll = opt("coll").is_some() && matches!(era, Era::Alonzo | Era::Babbage | Era::Conway);
    let refin = opt("ref").is_some() && post;
    let policy = synth::policy_id(&synth::key(150));
    let outnet: u8 = opt("outnet").and_then(|v| v.parse().ok()).unwrap_or(network);
    let mut b = Encoder::new(Vec::new());
    b.map(3 + ttl.is_some() as u64 + start.is_some() as u64 + netid.is_some() as u64 + aux_hash.is_some() as u64 + minting as u64 + req as u64 + coll as u64 + refin as u64).unwrap();
    b.u8(0).unwrap();
    if conway { b.tag(Tag::new(258)).unwrap(); }
    b.array(nin as u64).unwrap();
    for i in 0..nin { b.array(2).unwrap().bytes(&[i as u8 + 1; 32]).unwrap().u8(0).unwrap(); }
    b.u8(1).unwrap().array(2).unwrap();
    for (i, coin) in [out1, out2].iter().enumerate() {
        let addr = synth::key_address(if i == 0 { outnet } else { network }, &synth::key(200));
        // `outdh` (Alonzo): output 0 carries a datum hash `[address, value, hash]` -- the min-ada rule charges 10 more words for it
        let dh = i == 0 && era == Era::Alonzo && opt("outdh").is_some();
        if post { b.map(2).unwrap().u8(0).unwrap().bytes(&addr).unwrap().u8(1).unwrap(); } else { b.array(2 + dh as u64).unwrap().bytes(&addr).unwrap(); }
        if minting && i == 0 { b.array(2).unwrap().u64(*coin).unwrap().map(1).unwrap().bytes(policy.as_ref()).unwrap().map(1).unwrap().bytes(&[0x54]).unwrap().u64(5).unwrap(); } else { b.u64(*coin).unwrap(); }
        if dh { b.bytes(&[0x33; 32]).unwrap(); }
    }
    b.u8(2).unwrap().u64(fee).unwrap();
    if let Some(t) = ttl { b.u8(3).unwrap().u64(t).unwrap(); }
    if let Some(h) = &aux_hash { b.u8(7).unwrap().bytes(h).unwrap(); }
    if let Some(s) = start { b.u8(8).unwrap().u64(s).unwrap(); }
    if minting { b.u8(9).unwrap().map(1).unwrap().bytes(policy.as_ref()).unwrap().map(1).unwrap().bytes(&[0x54]).unwrap().u64(5).unwrap(); }
    if coll { b.u8(13).unwrap(); if conway { b.tag(Tag::new(258)).unwrap(); } b.array(1).unwrap().array(2).unwrap().bytes(&[0xc0; 32]).unwrap().u8(0).unwrap(); }
    if req { b.u8(14).unwrap(); if conway { b.tag(Tag::new(258)).unwrap(); } b.array(1).unwrap().bytes(Hasher::<224>::hash(&synth::key(160).pk).as_ref()).unwrap(); }
    if let Some(n) = netid { b.u8(15).unwrap().u8(n).unwrap(); }
    if refin { b.u8(18).unwrap(); if conway { b.tag(Tag::new(258)).unwrap(); } b.array(1).unwrap().array(2).unwrap().bytes(&[0xd0; 32]).unwrap().u8(0).unwrap(); }
    let body = b.into_writer();
    let txid = Hasher::<256>::hash(&body);
    let mut w = Encoder::new(Vec::new());
    let with_script = opt("mint").is_some() && minting;
    if conway && nin == 0 && !minting { w.map(0).unwrap(); } else {
        w.map(1 + with_script as u64).unwrap().u8(0).unwrap().array(nin as u64 + minting as u64 + req_signed as u64).unwrap();
        for i in 0..nin { let k = synth::key(100 + i as u8); w.array(2).unwrap().bytes(&k.pk).unwrap().bytes(k.sk.sign(txid.as_ref()).as_ref()).unwrap(); }
        if minting { let k = synth::key(150); w.array(2).unwrap().bytes(&k.pk).unwrap().bytes(k.sk.sign(txid.as_ref()).as_ref()).unwrap(); }
        if req_signed { let k = synth::key(160); w.array(2).unwrap().bytes(&k.pk).unwrap().bytes(k.sk.sign(txid.as_ref()).as_ref()).unwrap(); }
        if with_script { w.u8(1).unwrap().array(1).unwrap(); w.writer_mut().extend_from_slice(&synth::native_script(&synth::key(150))); }
    }
    f.tx_cbor = txparts::assemble(&txparts::TxParts { body, wits: w.into_writer(), aux, valid: true });
    f.utxo = (0..2).map(|i| {
        let mut oe = Encoder::new(Vec::new());
        let addr = synth::key_address(network, &synth::key(100 + i as u8));
        if post { oe.map(2).unwrap().u8(0).unwrap().bytes(&addr).unwrap().u8(1).unwrap().u64(10_000_000).unwrap(); } else { oe.array(2).unwrap().bytes(&addr).unwrap().u64(10_000_000).unwrap(); }
        UtxoEntry { input: InputRef::Post(synth::input_ref(i)), era: if post { era } else { Era::Alonzo }, cbor: oe.into_writer() }
    }).collect();
    for (on, id, seed, coin) in [(coll, 0xc0u8, 100u8, 5_000_000u64), (refin, 0xd0, 200, 2_000_000)] {
        if !on { continue; }
        let mut oe = Encoder::new(Vec::new());
        let addr = synth::key_address(network, &synth::key(seed));
        if post { oe.map(2).unwrap().u8(0).unwrap().bytes(&addr).unwrap().u8(1).unwrap().u64(coin).unwrap(); } else { oe.array(2).unwrap().bytes(&addr).unwrap().u64(coin).unwrap(); }
        let mut inp = synth::input_ref(0);
        inp.transaction_id = [id; 32].into();
        f.utxo.push(UtxoEntry { input: InputRef::Post(inp), era: if post { era } else { Era::Alonzo }, cbor: oe.into_writer() });
    }
    Some(f)
}

fn base(tok: &str) -> Option<Fixture> {
    if let Some(n) = tok.strip_prefix("fx:") { return fixtures::by_name(n); }
    let spec: Vec<&str> = tok.strip_prefix("sy:")?.split(':').collect();
    build_synth(&spec)
}

/// remove entry `key` of a CBOR map (witness set), every other entry keeps its bytes; false if absent
fn drop_map_entry(raw: &mut Vec<u8>, key: u64) -> bool {
    let mut d = Decoder::new(raw);
    let Ok(n) = d.map() else { return false };
    let mut entries: Vec<(u64, Vec<u8>)> = vec![];
    let mut i = 0u64;
    loop {
        if let Some(n) = n { if i >= n { break; } } else if d.datatype().ok() == Some(minicbor::data::Type::Break) { break; }
        let Ok(k) = d.u64() else { return false };
        let a = d.position();
        if d.skip().is_err() { return false; }
        entries.push((k, raw[a..d.position()].to_vec()));
        i += 1;
    }
    let before = entries.len();
    entries.retain(|e| e.0 != key);
    if entries.len() == before { return false; }
    let mut e = Encoder::new(Vec::new());
    e.map(entries.len() as u64).unwrap();
    let mut out = e.into_writer();
    for (k, v) in entries { let mut ke = Encoder::new(Vec::new()); ke.u64(k).unwrap(); out.extend(ke.into_writer()); out.extend(v); }
    *raw = out;
    true
}

/// append one element to the array / set / map stored under `key` of the witness set (definite forms with < 23 entries)
fn append_to_field(raw: &mut Vec<u8>, key: u64, redeemer: bool) -> bool {
    let mut d = Decoder::new(raw);
    let Ok(Some(n)) = d.map() else { return false };
    for _ in 0..n {
        let Ok(k) = d.u64() else { return false };
        let a = d.position();
        if d.skip().is_err() { return false; }
        let b = d.position();
        if k != key { continue; }
        let mut val = raw[a..b].to_vec();
        let off = if val.starts_with(&[0xd9, 0x01, 0x02]) { 3 } else { 0 };
        let head = val[off];
        let (major, cnt) = (head >> 5, head & 31);
        if cnt >= 23 || !(major == 4 || major == 5) { return false; }
        val[off] = head + 1;
        if redeemer {
            // spend pointer 97, data `0`, ex-units (0, 0)
            if major == 5 { val.extend_from_slice(&[0x82, 0x00, 0x18, 0x61, 0x82, 0x00, 0x82, 0x00, 0x00]); } else { val.extend_from_slice(&[0x84, 0x00, 0x18, 0x61, 0x00, 0x82, 0x00, 0x00]); }
        } else {
            val.extend_from_slice(&[0x19, 0x30, 0x39]);   // the datum `12345`
        }
        raw.splice(a..b, val);
        return true;
    }
    false
}

/// rewrite one UTxO entry: new address / coin / extra asset
/// raw elements of a definite array / entries of a definite map (keys unsigned) at the top level of `raw`
fn raw_items(raw: &[u8]) -> Option<(bool, Vec<(u64, Vec<u8>)>)> {
    let mut d = Decoder::new(raw);
    match d.datatype().ok()? {
        minicbor::data::Type::Array => {
            let n = d.array().ok()??;
            let mut v = vec![];
            for i in 0..n { let a = d.position(); d.skip().ok()?; v.push((i, raw[a..d.position()].to_vec())); }
            Some((false, v))
        }
        minicbor::data::Type::Map => {
            let n = d.map().ok()??;
            let mut v = vec![];
            for _ in 0..n { let k = d.u64().ok()?; let a = d.position(); d.skip().ok()?; v.push((k, raw[a..d.position()].to_vec())); }
            Some((true, v))
        }
        _ => None,
    }
}

/// a Byron address (bytes of `byron.successful_mainnet_tx`'s UTxO address)
fn byron_address_bytes() -> Option<Vec<u8>> {
    let f = fixtures::by_name("byron.successful_mainnet_tx")?;
    let out: pallas_primitives::byron::TxOut = minicbor::decode(&f.utxo.first()?.cbor).ok()?;
    minicbor::to_vec(&out.address).ok()
}

/// the UTxO entry in the post-Alonzo map form with its address replaced by a Byron one (`byron`) or an inline datum added
fn edit_utxo_form(e: &mut UtxoEntry, byron: bool) -> bool {
    if !matches!(e.era, Era::Babbage | Era::Conway) { return false; }
    let Some((is_map, items)) = raw_items(&e.cbor) else { return false };
    // legacy array `[address, value, ?datum_hash]` -> map `{0: address, 1: value}` (a datum hash would become a datum option: left alone)
    let mut entries: Vec<(u64, Vec<u8>)> = if is_map { items } else { if items.len() != 2 { return false; } items };
    if byron {
        let Some(b) = byron_address_bytes() else { return false };
        let mut enc = Encoder::new(Vec::new());
        enc.bytes(&b).unwrap();
        let Some(a) = entries.iter_mut().find(|x| x.0 == 0) else { return false };
        a.1 = enc.into_writer();
    } else {
        if entries.iter().any(|x| x.0 == 2) { return false; }
        // `[1, #6.24(h'd87980')]` = inline datum `Constr 0 []`
        entries.push((2, vec![0x82, 0x01, 0xd8, 0x18, 0x43, 0xd8, 0x79, 0x80]));
        entries.sort_by_key(|x| x.0);
    }
    let mut enc = Encoder::new(Vec::new());
    enc.map(entries.len() as u64).unwrap();
    let mut out = enc.into_writer();
    for (k, v) in entries { let mut ke = Encoder::new(Vec::new()); ke.u64(k).unwrap(); out.extend(ke.into_writer()); out.extend(v); }
    if MultiEraOutput::decode(e.era, &out).is_err() { return false; }
    e.cbor = out;
    true
}

/// `mem + 1` in the execution units of the first redeemer of the witness set (list form `[[tag, index, data, [mem, steps]], ..]`
/// or map form `{[tag, index]: [data, [mem, steps]], ..}`): pointers, data and datums stay, only the script-integrity hash notices
fn bump_first_redeemer(raw: &mut Vec<u8>) -> bool {
    let mut d = Decoder::new(raw);
    let Ok(Some(n)) = d.map() else { return false };
    for _ in 0..n {
        let Ok(k) = d.u64() else { return false };
        if k != 5 { if d.skip().is_err() { return false; } continue; }
        let step = |d: &mut Decoder| -> Option<()> {
            match d.datatype().ok()? {
                minicbor::data::Type::Array => { if d.array().ok()?.unwrap_or(1) == 0 { return None; } if d.array().ok()? != Some(4) { return None; } d.skip().ok()?; d.skip().ok()?; d.skip().ok()?; }
                minicbor::data::Type::Map => { if d.map().ok()?.unwrap_or(1) == 0 { return None; } d.skip().ok()?; if d.array().ok()? != Some(2) { return None; } d.skip().ok()?; }
                _ => return None,
            }
            if d.array().ok()? != Some(2) { return None; }
            Some(())
        };
        if step(&mut d).is_none() { return false; }
        let a = d.position();
        let Ok(mem) = d.u64() else { return false };
        let b = d.position();
        let mut enc = Encoder::new(Vec::new());
        enc.u64(mem.wrapping_add(1)).unwrap();
        raw.splice(a..b, enc.into_writer());
        return true;
    }
    false
}

fn edit_utxo(e: &mut UtxoEntry, script_addr: bool, coin: Option<u64>, add_asset: bool) -> bool {
    let Ok(o) = MultiEraOutput::decode(e.era, &e.cbor) else { return false };
    let Ok(Address::Shelley(sa)) = o.address() else { return false };
    let mut addr = sa.to_vec();
    if script_addr { addr = { let mut a = vec![0x70 | (addr[0] & 0x0f)]; a.extend_from_slice(&addr[1..29]); a }; }
    let lovelace = coin.unwrap_or(o.lovelace_amount());
    let has_assets = !o.value().assets().is_empty();
    if has_assets && !add_asset && coin.is_none() && !script_addr { return false; }
    let post = matches!(e.era, Era::Babbage | Era::Conway);
    let mut enc = Encoder::new(Vec::new());
    if post { enc.map(2).unwrap().u8(0).unwrap().bytes(&addr).unwrap().u8(1).unwrap(); } else { enc.array(2).unwrap().bytes(&addr).unwrap(); }
    if add_asset { enc.array(2).unwrap().u64(lovelace).unwrap().map(1).unwrap().bytes(&[0x33; 28]).unwrap().map(1).unwrap().bytes(&[0x41]).unwrap().u64(5).unwrap(); } else { enc.u64(lovelace).unwrap(); }
    e.cbor = enc.into_writer();
    true
}

/// `true` if the mutator applied and changed something
fn apply(f: &mut Fixture, m: &str) -> bool {
    let (k, v) = m.split_once('=').unwrap_or((m, ""));
    let num = |s: &str| s.parse::<u64>().ok();
    let tx_inputs = |f: &Fixture, which: &str| -> Vec<String> {
        let Ok(tx) = MultiEraTx::decode_for_era(f.era, &f.tx_cbor) else { return vec![] };
        let v = match which { "in" => tx.inputs(), "col" => tx.collateral(), _ => tx.reference_inputs() };
        v.iter().map(|i| format!("{}#{}", hex::encode(i.hash().as_ref()), i.index())).collect()
    };
    match k {
        "slot" => { let Some(n) = num(v) else { return false }; f.env.block_slot = n; true }
        "envnet" => { let Some(n) = num(v) else { return false }; f.env.network_id = n as u8; true }
        "maxsize" => { let Some(n) = num(v) else { return false }; if let P::Byron(p) = &mut f.env.prot_params { p.max_tx_size = n; } else { params::set_max_tx_size(&mut f.env, n as u32); } true }
        "minfee" => { let Some((a, b)) = v.split_once(':') else { return false }; let (Some(a), Some(b)) = (num(a), num(b)) else { return false }; params::set_minfee(&mut f.env, a as u32, b as u32); true }
        "coins" => { let Some(n) = num(v) else { return false }; match &mut f.env.prot_params { P::Shelley(p) => p.min_utxo_value = n, P::Alonzo(p) => p.ada_per_utxo_byte = n, P::Babbage(p) => p.ada_per_utxo_byte = n, P::Conway(p) => p.ada_per_utxo_byte = n, _ => return false } true }
        "maxval" => { let Some(n) = num(v) else { return false }; match &mut f.env.prot_params { P::Alonzo(p) => p.max_value_size = n as u32, P::Babbage(p) => p.max_value_size = n as u32, P::Conway(p) => p.max_value_size = n as u32, _ => return false } true }
        "maxcol" => { let Some(n) = num(v) else { return false }; match &mut f.env.prot_params { P::Alonzo(p) => p.max_collateral_inputs = n as u32, P::Babbage(p) => p.max_collateral_inputs = n as u32, P::Conway(p) => p.max_collateral_inputs = n as u32, _ => return false } true }
        "pct" => { let Some(n) = num(v) else { return false }; match &mut f.env.prot_params { P::Alonzo(p) => p.collateral_percentage = n as u32, P::Babbage(p) => p.collateral_percentage = n as u32, P::Conway(p) => p.collateral_percentage = n as u32, _ => return false } true }
        "nocost" if !uses_language(f, v) => false,
        "nocost" => match (&mut f.env.prot_params, v) {
            (P::Conway(p), "1") => p.cost_models_for_script_languages.plutus_v1.take().is_some(),
            (P::Conway(p), "2") => p.cost_models_for_script_languages.plutus_v2.take().is_some(),
            (P::Conway(p), "3") => p.cost_models_for_script_languages.plutus_v3.take().is_some(),
            _ => false,
        },
        "dropin" | "dropcol" | "dropref" => {
            let Some(i) = num(v) else { return false };
            let refs = tx_inputs(f, &k[4..]);
            let Some(r) = refs.get(i as usize) else { return false };
            let before = f.utxo.len();
            f.utxo.retain(|u| &u.input.show() != r);
            f.utxo.len() != before
        }
        "colscript" | "colassets" | "colcoin" => {
            let (i, n) = match v.split_once(':') { Some((i, n)) => (num(i), num(n)), None => (num(v), None) };
            let Some(i) = i else { return false };
            let refs = tx_inputs(f, "col");
            let Some(r) = refs.get(i as usize).cloned() else { return false };
            let Some(e) = f.utxo.iter_mut().find(|u| u.input.show() == r) else { return false };
            edit_utxo(e, k == "colscript", if k == "colcoin" { n } else { None }, k == "colassets")
        }
        "refbyron" | "indatum" => {
            let Some(i) = num(v) else { return false };
            let refs = tx_inputs(f, if k == "refbyron" { "ref" } else { "in" });
            let Some(r) = refs.get(i as usize).cloned() else { return false };
            let Some(e) = f.utxo.iter_mut().find(|u| u.input.show() == r) else { return false };
            // an inline datum on a script-locked input would also change what `check_datums` sees: key-locked inputs only
            if k == "indatum" { match MultiEraOutput::decode(e.era, &e.cbor).ok().and_then(|o| o.address().ok()) { Some(Address::Shelley(sa)) if !sa.payment().is_script() => {} _ => return false } }
            edit_utxo_form(e, k == "refbyron")
        }
        "redmut" => {
            if f.era == Era::Byron { return false; }
            let Some(mut parts) = txparts::split(f.era, &f.tx_cbor) else { return false };
            if !bump_first_redeemer(&mut parts.wits) { return false; }
            f.tx_cbor = txparts::assemble(&parts);
            MultiEraTx::decode_for_era(f.era, &f.tx_cbor).is_ok()
        }
        "colpaid" => {
            // collateral percentage <p> and the coin of collateral input 0 set so that the paid collateral (Babbage / Conway: the
            // lovelace balance; Alonzo: that input's own coin) is exactly <target>
            let Some((p, t)) = v.split_once(':') else { return false };
            let (Some(p), Some(t)) = (num(p), num(t)) else { return false };
            let Some(vw) = view(f) else { return false };
            let Some(c0) = vw.col.as_ref().and_then(|c| c.first()).map(|c| c.coin) else { return false };
            let coin0 = if f.era == Era::Alonzo { t } else { let Some(paid) = vw.paid else { return false }; let n = c0 as i128 + t as i128 - paid as i128; if n < 0 || n > u64::MAX as i128 { return false; } n as u64 };
            match &mut f.env.prot_params { P::Alonzo(q) => q.collateral_percentage = p as u32, P::Babbage(q) => q.collateral_percentage = p as u32, P::Conway(q) => q.collateral_percentage = p as u32, _ => return false }
            let refs = tx_inputs(f, "col");
            let Some(r) = refs.first().cloned() else { return false };
            let Some(e) = f.utxo.iter_mut().find(|u| u.input.show() == r) else { return false };
            edit_utxo(e, false, Some(coin0), false)
        }
        "dropwit" => {
            let Some(key) = num(v) else { return false };
            if f.era == Era::Byron { return false; }
            let Some(mut parts) = txparts::split(f.era, &f.tx_cbor) else { return false };
            let before = parts.wits.len();
            if !drop_map_entry(&mut parts.wits, key) { return false; }
            // an empty collection (`80`, `d9 0102 80`) is not something a rule can demand
            if before - parts.wits.len() <= 5 { return false; }
            f.tx_cbor = txparts::assemble(&parts);
            true
        }
        "maxex" => { let Some((a, b)) = v.split_once(':') else { return false }; let (Some(a), Some(b)) = (num(a), num(b)) else { return false }; if params::max_tx_ex_units(&f.env).is_none() { return false; } params::set_max_tx_ex_units(&mut f.env, a, b); true }
        "costmut" if !uses_language(f, v) => false,
        "costmut" => match (&mut f.env.prot_params, v) {
            (P::Conway(p), k) => { let c = &mut p.cost_models_for_script_languages; let m = match k { "1" => c.plutus_v1.as_mut(), "2" => c.plutus_v2.as_mut(), _ => c.plutus_v3.as_mut() }; match m.and_then(|m| m.first_mut()) { Some(x) => { *x += 1; true } None => false } }
            _ => false,
        },
        "incoin" => {
            let Some((i, n)) = v.split_once(':') else { return false };
            let (Some(i), Some(n)) = (num(i), num(n)) else { return false };
            let refs = tx_inputs(f, "in");
            let Some(r) = refs.get(i as usize).cloned() else { return false };
            let Some(e) = f.utxo.iter_mut().find(|u| u.input.show() == r) else { return false };
            edit_utxo(e, false, Some(n), false)
        }
        "addred" | "adddatum" => {
            if f.era == Era::Byron { return false; }
            let Some(mut parts) = txparts::split(f.era, &f.tx_cbor) else { return false };
            if !append_to_field(&mut parts.wits, if k == "addred" { 5 } else { 4 }, k == "addred") { return false; }
            f.tx_cbor = txparts::assemble(&parts);
            true
        }
        "dropaux" | "auxflip" => {
            if f.era == Era::Byron { return false; }
            let Some(mut parts) = txparts::split(f.era, &f.tx_cbor) else { return false };
            let Some(a) = parts.aux.as_mut() else { return false };
            if k == "dropaux" { parts.aux = None; } else { let n = a.len(); a[n - 1] ^= 1; }
            f.tx_cbor = txparts::assemble(&parts);
            true
        }
        _ => false,
    }
}

/// does the transaction run a Plutus script of language version `k` (witness set or reference input)?
fn uses_language(f: &Fixture, k: &str) -> bool {
    let Ok(tx) = MultiEraTx::decode_for_era(f.era, &f.tx_cbor) else { return false };
    let utxos = f.utxos();
    let in_wits = match k { "1" => !tx.plutus_v1_scripts().is_empty(), "2" => !tx.plutus_v2_scripts().is_empty(), _ => !tx.plutus_v3_scripts().is_empty() };
    in_wits || tx.reference_inputs().iter().any(|i| utxos.get(i).and_then(|o| o.script_ref()).map(|s| match (k, s) {
        ("1", pallas_primitives::conway::ScriptRef::PlutusV1Script(_)) | ("2", pallas_primitives::conway::ScriptRef::PlutusV2Script(_)) | ("3", pallas_primitives::conway::ScriptRef::PlutusV3Script(_)) => true,
        _ => false,
    }).unwrap_or(false))
}

fn scenario(toks: &[String]) -> Option<(Fixture, Vec<String>)> {
    let mut f = base(&toks[0])?;
    let mut effective = vec![];
    for m in &toks[1..] { if apply(&mut f, m) { effective.push(m.clone()); } }
    if MultiEraTx::decode_for_era(f.era, &f.tx_cbor).is_err() { return None; }
    Some((f, effective))
}

// ------------------------------------------------------------------------------------------------ hook verdicts

fn verdicts(f: &Fixture) -> Option<Vec<(String, Result<(), String>)>> {
    let tx = MultiEraTx::decode_for_era(f.era, &f.tx_cbor).ok()?;
    let utxos = f.utxos();
    let v = guard_mut(|| match (&tx, &f.env.prot_params) {
        (MultiEraTx::Byron(x), P::Byron(pp)) => byron::verif_hooks::rule_verdicts(x, &utxos, pp, &f.env.prot_magic),
        (MultiEraTx::AlonzoCompatible(x, Era::Alonzo), P::Alonzo(pp)) => alonzo::verif_hooks::rule_verdicts(x, &utxos, pp, &f.env.block_slot, &f.env.network_id),
        (MultiEraTx::AlonzoCompatible(x, e), P::Shelley(pp)) => match &f.env.acnt {
            Some(acnt) => shelley_ma::verif_hooks::rule_verdicts(x, 0, &utxos, &f.cert_state, pp, acnt, &f.env.block_slot, &f.env.network_id, e),
            None => vec![],
        },
        (MultiEraTx::Babbage(x), P::Babbage(pp)) => babbage::verif_hooks::rule_verdicts(x, &utxos, pp, &f.env.block_slot, &f.env.prot_magic, &f.env.network_id),
        (MultiEraTx::Conway(x), P::Conway(pp)) => conway::verif_hooks::rule_verdicts(x, &utxos, pp, &f.env.block_slot, &f.env.network_id),
        _ => vec![],
    })?;
    Some(v.into_iter().map(|(r, res)| (r.to_string(), res.map_err(|e| err_tok(&e)))).collect())
}

// ------------------------------------------------------------------------------------------------ observations (the View)

struct Coll { in_utxo: bool, looked_at: bool, script: Option<bool>, coin: u64, assets: bool }
struct OutV { lovelace: u64, words: u64, multi: bool, datum_hash: bool, network: Option<u8> }
struct View {
    nin: usize, nout: usize, ins: Vec<bool>, col: Option<Vec<Coll>>, refs: Vec<bool>, start: Option<u64>, ttl: Option<u64>, slot: u64,
    size: u64, max_size: u64, fee: u64, a: u64, b: u64, outs: Vec<OutV>, coins: u64, maxval: u64, envnet: u8, txnet: Option<u8>,
    plutus: bool, redeemers: bool, maxcol: u64, pct: u64, paid: Option<u64>, total: Option<u64>, auxh: bool, aux: bool, auxm: bool,
}

fn payment_kind(o: &MultiEraOutput) -> Option<bool> {
    match o.address() { Ok(Address::Shelley(sa)) => Some(matches!(sa.payment(), ShelleyPaymentPart::Script(_))), _ => None }
}

fn view(f: &Fixture) -> Option<View> {
    let tx = MultiEraTx::decode_for_era(f.era, &f.tx_cbor).ok()?;
    let utxos = f.utxos();
    let era = era_tok(f);
    let ins: Vec<bool> = tx.inputs().iter().map(|i| utxos.contains_key(i)).collect();
    let refs: Vec<bool> = tx.reference_inputs().iter().map(|i| utxos.contains_key(i)).collect();
    let (col_present, aux_hash, plutus, redeemers): (bool, Option<Vec<u8>>, bool, bool) = match &tx {
        MultiEraTx::AlonzoCompatible(x, _) => (x.transaction_body.collateral.is_some(), x.transaction_body.auxiliary_data_hash.as_ref().map(|h| h.to_vec()),
            x.transaction_witness_set.plutus_script.as_ref().map(|s| !s.is_empty()).unwrap_or(false), x.transaction_witness_set.redeemer.is_some()),
        MultiEraTx::Babbage(x) => (x.transaction_body.collateral.is_some(), x.transaction_body.auxiliary_data_hash.as_ref().map(|h| h.to_vec()),
            x.transaction_witness_set.plutus_v1_script.as_ref().map(|s| !s.is_empty()).unwrap_or(false) || x.transaction_witness_set.plutus_v2_script.as_ref().map(|s| !s.is_empty()).unwrap_or(false),
            x.transaction_witness_set.redeemer.is_some()),
        MultiEraTx::Conway(x) => (x.transaction_body.collateral.is_some(), x.transaction_body.auxiliary_data_hash.as_ref().map(|h| h.to_vec()),
            x.transaction_witness_set.plutus_v1_script.is_some() || x.transaction_witness_set.plutus_v2_script.is_some() || x.transaction_witness_set.plutus_v3_script.is_some(),
            x.transaction_witness_set.redeemer.is_some()),
        _ => (false, None, false, false),
    };
    let col: Option<Vec<Coll>> = if !col_present { None } else {
        Some(tx.collateral().iter().map(|i| match utxos.get(i) {
            None => Coll { in_utxo: false, looked_at: false, script: None, coin: 0, assets: false },
            Some(o) => Coll {
                in_utxo: true,
                looked_at: match era { "alonzo" => o.as_alonzo().is_some(), "babbage" => o.as_babbage().is_some(), _ => o.as_conway().is_some() },
                script: payment_kind(o), coin: o.lovelace_amount(), assets: !o.value().assets().is_empty(),
            },
        }).collect())
    };
    // Babbage / Conway: lovelace-only balance of collateral inputs minus collateral return
    let paid: Option<u64> = (|| {
        let c = col.as_ref()?;
        if c.iter().any(|x| !x.in_utxo) { return None; }
        let mut coin: u128 = 0;
        let mut assets: std::collections::BTreeMap<(Vec<u8>, Vec<u8>), u128> = Default::default();
        for i in tx.collateral() {
            let o = utxos.get(&i)?;
            coin += o.lovelace_amount() as u128;
            for pa in o.value().assets() { for a in pa.assets() { *assets.entry((pa.policy().to_vec(), a.name().to_vec())).or_default() += a.output_coin().unwrap_or(0) as u128; } }
        }
        let mut ret_assets: std::collections::BTreeMap<(Vec<u8>, Vec<u8>), u128> = Default::default();
        let mut ret_coin: u128 = 0;
        if let Some(r) = tx.collateral_return() {
            ret_coin = r.lovelace_amount() as u128;
            for pa in r.value().assets() { for a in pa.assets() { *ret_assets.entry((pa.policy().to_vec(), a.name().to_vec())).or_default() += a.output_coin().unwrap_or(0) as u128; } }
        }
        assets.retain(|_, v| *v != 0);
        ret_assets.retain(|_, v| *v != 0);
        if assets != ret_assets || coin > u64::MAX as u128 || coin < ret_coin { return None; }
        Some((coin - ret_coin) as u64)
    })();
    let outs: Vec<OutV> = tx.outputs().iter().map(|o| {
        let words = if era == "conway" { utils::conway_get_val_size_in_words(&o.value().into_conway()) } else { utils::get_val_size_in_words(&o.value().into_alonzo()) };
        let multi = match o { MultiEraOutput::AlonzoCompatible(x, _) => matches!(x.amount, pallas_primitives::alonzo::Value::Multiasset(..)), _ => !o.value().assets().is_empty() };
        let datum_hash = matches!(o, MultiEraOutput::AlonzoCompatible(x, _) if x.datum_hash.is_some());
        let network = match o.address() { Ok(Address::Shelley(sa)) => Some(sa.network().value()), _ => None };
        OutV { lovelace: o.lovelace_amount(), words, multi, datum_hash, network }
    }).collect();
    let parts = if f.era == Era::Byron { None } else { txparts::split(f.era, &f.tx_cbor) };
    let (aux, auxm) = match (&parts, &aux_hash) {
        (Some(p), h) => (p.aux.is_some(), match (&p.aux, h) { (Some(a), Some(h)) => Hasher::<256>::hash(a).as_ref() == h.as_slice(), _ => false }),
        _ => (false, false),
    };
    let (a, b) = params::minfee(&f.env).unwrap_or((0, 0));
    let (coins, maxval, maxcol, pct) = match &f.env.prot_params {
        P::Shelley(p) => (p.min_utxo_value, 0, 0, 0),
        P::Alonzo(p) => (p.ada_per_utxo_byte, p.max_value_size as u64, p.max_collateral_inputs as u64, p.collateral_percentage as u64),
        P::Babbage(p) => (p.ada_per_utxo_byte, p.max_value_size as u64, p.max_collateral_inputs as u64, p.collateral_percentage as u64),
        P::Conway(p) => (p.ada_per_utxo_byte, p.max_value_size as u64, p.max_collateral_inputs as u64, p.collateral_percentage as u64),
        _ => (0, 0, 0, 0),
    };
    let (size, max_size) = match (&tx, &f.env.prot_params) {
        (MultiEraTx::Byron(x), P::Byron(pp)) => ((x.transaction.raw_cbor().len() + x.witness.raw_cbor().len()) as u64, pp.max_tx_size),
        _ => (tx.size() as u64, params::max_tx_size(&f.env).unwrap_or(0) as u64),
    };
    Some(View {
        nin: tx.inputs().len(), nout: tx.outputs().len(), ins, col, refs, start: tx.validity_start(), ttl: tx.ttl(), slot: f.env.block_slot,
        size, max_size, fee: tx.fee().unwrap_or(0), a: a as u64, b: b as u64, outs, coins, maxval, envnet: f.env.network_id,
        txnet: tx.network_id().map(u8::from), plutus, redeemers, maxcol, pct, paid, total: tx.total_collateral(), auxh: aux_hash.is_some(), aux, auxm,
    })
}

fn opt<T: ToString>(o: &Option<T>) -> String { o.as_ref().map(|x| x.to_string()).unwrap_or("-".into()) }
fn bits(v: &[bool]) -> String { if v.is_empty() { "-".into() } else { v.iter().map(|b| if *b { '1' } else { '0' }).collect() } }

fn facts_text(v: &View) -> String {
    let col = match &v.col { None => "-".to_string(), Some(c) if c.is_empty() => "e".to_string(),
        Some(c) => c.iter().map(|x| format!("{}{}{}.{}.{}", x.in_utxo as u8, x.looked_at as u8, match x.script { None => 'u', Some(true) => 's', Some(false) => 'k' }, x.coin, x.assets as u8)).collect::<Vec<_>>().join(",") };
    let outs = if v.outs.is_empty() { "-".to_string() } else { v.outs.iter().map(|o| format!("{}.{}.{}{}.{}", o.lovelace, o.words, o.multi as u8, o.datum_hash as u8, opt(&o.network))).collect::<Vec<_>>().join(",") };
    format!("nin={} nout={} ins={} col={col} ref={} start={} ttl={} slot={} size={} max={} fee={} a={} b={} outs={outs} coins={} maxval={} envnet={} txnet={} plutus={} red={} maxcol={} pct={} paid={} total={} auxh={} aux={} auxm={}",
        v.nin, v.nout, bits(&v.ins), bits(&v.refs), opt(&v.start), opt(&v.ttl), v.slot, v.size, v.max_size, v.fee, v.a, v.b, v.coins, v.maxval, v.envnet,
        opt(&v.txnet), v.plutus as u8, v.redeemers as u8, v.maxcol, v.pct, opt(&v.paid), opt(&v.total), v.auxh as u8, v.aux as u8, v.auxm as u8)
}


// ------------------------------------------------------------------------------------------------ script observations

fn hx(b: &[u8]) -> String { hex::encode(b) }
fn list(v: &[String]) -> String { if v.is_empty() { "-".into() } else { v.join(",") } }
fn olist(v: &[Option<String>]) -> String { if v.is_empty() { "-".into() } else { v.iter().map(|o| o.clone().unwrap_or("_".into())).collect::<Vec<_>>().join(",") } }

fn script_hash(tag: u8, bytes: &[u8]) -> String { let mut p = vec![tag]; p.extend_from_slice(bytes); hx(Hasher::<224>::hash(&p).as_ref()) }

/// script hash of a UTxO output's payment part, for the output variants the era's validator reads
fn locked_by_script(era: &str, o: &MultiEraOutput) -> Option<String> {
    let looked = match era { "shelley" | "alonzo" => o.as_alonzo().is_some(), "babbage" => o.as_babbage().is_some(), _ => o.as_conway().is_some() };
    if !looked { return None; }
    match o.address() { Ok(Address::Shelley(sa)) => match sa.payment() { ShelleyPaymentPart::Script(h) => Some(hx(h.as_ref())), _ => None }, _ => None }
}

fn datum_hash_of(o: &MultiEraOutput) -> Option<String> {
    match o.datum() { Some(pallas_primitives::conway::DatumOption::Hash(h)) => Some(hx(h.as_ref())), _ => None }
}

fn script_facts(f: &Fixture) -> Option<String> {
    use pallas_primitives::conway::ScriptRef;
    let tx = MultiEraTx::decode_for_era(f.era, &f.tx_cbor).ok()?;
    let utxos = f.utxos();
    let era = era_tok(f);
    // witness-set scripts
    let native: Vec<String> = match &tx {
        MultiEraTx::AlonzoCompatible(x, _) => x.transaction_witness_set.native_script.iter().flatten().map(|s| hx(utils::compute_native_script_hash(&s.clone().unwrap()).as_ref())).collect(),
        _ => tx.native_scripts().iter().map(|s| script_hash(0, s.raw_cbor())).collect(),
    };
    let v1: Vec<String> = tx.plutus_v1_scripts().iter().map(|s| script_hash(1, s.as_ref())).collect();
    let v2: Vec<String> = tx.plutus_v2_scripts().iter().map(|s| script_hash(2, s.as_ref())).collect();
    let v3: Vec<String> = tx.plutus_v3_scripts().iter().map(|s| script_hash(3, s.as_ref())).collect();
    let pf = matches!(&tx, MultiEraTx::AlonzoCompatible(x, _) if x.transaction_witness_set.plutus_script.is_some());
    // reference scripts (post-Alonzo outputs of the era's own variant)
    let mut refs: Vec<String> = vec![];
    let mut ref_langs = [false; 3];
    for i in tx.reference_inputs() {
        let Some(o) = utxos.get(&i) else { continue };
        let own = match era { "babbage" => o.as_babbage().is_some(), "conway" => o.as_conway().is_some(), _ => false };
        if !own { continue; }
        match o.script_ref() {
            Some(ScriptRef::NativeScript(n)) => refs.push(script_hash(0, n.raw_cbor())),
            Some(ScriptRef::PlutusV1Script(p)) => { refs.push(script_hash(1, p.as_ref())); ref_langs[0] = true; }
            Some(ScriptRef::PlutusV2Script(p)) => { refs.push(script_hash(2, p.as_ref())); ref_langs[1] = true; }
            Some(ScriptRef::PlutusV3Script(p)) => { refs.push(script_hash(3, p.as_ref())); ref_langs[2] = true; }
            None => {}
        }
    }
    // mint
    let mints = tx.mints();
    let mint_present = match &tx { MultiEraTx::AlonzoCompatible(x, _) => x.transaction_body.mint.is_some(), MultiEraTx::Babbage(x) => x.transaction_body.mint.is_some(), MultiEraTx::Conway(x) => x.transaction_body.mint.is_some(), _ => false };
    let mut policies: Vec<Vec<u8>> = mints.iter().map(|m| m.policy().to_vec()).collect();
    let mintp: Vec<String> = policies.iter().map(|p| hx(p)).collect();
    policies.sort();
    let spol: Vec<String> = policies.iter().map(|p| hx(p)).collect();
    // inputs
    let ins = tx.inputs();
    let insc: Vec<String> = ins.iter().filter_map(|i| utxos.get(i).and_then(|o| locked_by_script(era, o))).collect();
    let mut sorted = ins.clone();
    sorted.sort_by_key(|i| (i.hash().to_vec(), i.index()));
    let sins: Vec<Option<String>> = sorted.iter().map(|i| utxos.get(i).and_then(|o| locked_by_script(era, o))).collect();
    // withdrawals (Conway): sorted by (network, script < key, hash)
    let (mut swd, mut wdok): (Vec<Option<String>>, bool) = (vec![], true);
    if era == "conway" {
        let mut parsed: Vec<(u8, bool, Vec<u8>)> = vec![];
        for (k, _) in tx.withdrawals_sorted_set() {
            match Address::from_bytes(k) { Ok(Address::Stake(a)) => parsed.push((match a.network() { pallas_addresses::Network::Testnet => 0, pallas_addresses::Network::Mainnet => 1, pallas_addresses::Network::Other(t) => t }, !a.is_script(), a.payload().as_hash().to_vec())), _ => wdok = false }
        }
        parsed.sort();
        swd = parsed.iter().map(|(_, key, h)| if *key { None } else { Some(hx(h)) }).collect();
    }
    // redeemers
    let reds: Vec<String> = tx.redeemers().iter().map(|r| format!("{}.{}", r.tag() as u8, r.index())).collect();
    // datums
    let wd: Vec<String> = tx.plutus_data().iter().map(|d| hx(Hasher::<256>::hash(d.raw_cbor()).as_ref())).collect();
    let resolved = |o: &MultiEraOutput| match era { "alonzo" => o.as_alonzo().is_some(), _ => true };
    let inres = ins.iter().all(|i| utxos.get(i).map(|o| resolved(o)).unwrap_or(false));
    let idh: Vec<Option<String>> = ins.iter().map(|i| utxos.get(i).and_then(|o| datum_hash_of(o))).collect();
    let mut adh: Vec<String> = tx.outputs().iter().filter_map(|o| datum_hash_of(o)).collect();
    if matches!(era, "babbage" | "conway") {
        if let Some(r) = tx.collateral_return() { adh.extend(datum_hash_of(&r)); }
        for i in tx.reference_inputs() { if let Some(o) = utxos.get(&i) { let own = if era == "babbage" { o.as_babbage().is_some() } else { o.as_conway().is_some() }; if own { adh.extend(datum_hash_of(o)); } } }
    }
    // languages
    let mut used: Vec<u8> = vec![];
    let wl = [!tx.plutus_v1_scripts().is_empty(), !tx.plutus_v2_scripts().is_empty(), !tx.plutus_v3_scripts().is_empty()];
    for k in 0..3 { if (wl[k] || (era != "alonzo" && ref_langs[k])) && !(era == "babbage" && k == 2) && !(era == "alonzo" && k > 0) { used.push(k as u8); } }
    let cm: Vec<u8> = match &f.env.prot_params { P::Conway(p) => { let c = &p.cost_models_for_script_languages; [c.plutus_v1.is_some(), c.plutus_v2.is_some(), c.plutus_v3.is_some()].iter().enumerate().filter(|(_, b)| **b).map(|(i, _)| i as u8).collect() } _ => vec![] };
    // allowed-language flags over inputs + reference inputs (own variant) + outputs
    let mut all_outs: Vec<MultiEraOutput> = vec![];
    for i in ins.iter().chain(tx.reference_inputs().iter()) { if let Some(o) = utxos.get(i) { let own = match era { "babbage" => o.as_babbage().is_some(), "conway" => o.as_conway().is_some(), _ => false }; if own { all_outs.push(o.clone()); } } }
    all_outs.extend(tx.outputs());
    let addr_bytes = |o: &MultiEraOutput| -> Vec<u8> { match o { MultiEraOutput::AlonzoCompatible(x, _) => x.address.to_vec(),
        MultiEraOutput::Babbage(x) => match &***x { pallas_primitives::babbage::TransactionOutput::Legacy(l) => l.address.to_vec(), pallas_primitives::babbage::TransactionOutput::PostAlonzo(p) => p.address.to_vec() },
        MultiEraOutput::Conway(x) => match &***x { pallas_primitives::conway::TransactionOutput::Legacy(l) => l.address.to_vec(), pallas_primitives::conway::TransactionOutput::PostAlonzo(p) => p.address.to_vec() }, _ => vec![] } };
    let byron = all_outs.iter().any(|o| matches!(Address::from_bytes(&addr_bytes(o)), Ok(Address::Byron(_))));
    let post_alonzo_form = |o: &MultiEraOutput| match o { MultiEraOutput::Babbage(x) => matches!(&***x, pallas_primitives::babbage::TransactionOutput::PostAlonzo(_)), MultiEraOutput::Conway(x) => matches!(&***x, pallas_primitives::conway::TransactionOutput::PostAlonzo(_)), _ => false };
    let dsr = all_outs.iter().any(|o| post_alonzo_form(o) && (o.script_ref().is_some() || matches!(o.datum(), Some(pallas_primitives::conway::DatumOption::Data(_)))));
    let anyref = !tx.reference_inputs().is_empty();
    // script-integrity hash pieces
    let (sdhp, renc, dencs, rcount, cmb): (Option<Vec<u8>>, Option<Vec<u8>>, Option<Vec<Vec<u8>>>, usize, Vec<u8>) = match &tx {
        MultiEraTx::AlonzoCompatible(x, Era::Alonzo) => (x.transaction_body.script_data_hash.map(|h| h.to_vec()),
            x.transaction_witness_set.redeemer.as_ref().map(|r| minicbor::to_vec(r).unwrap_or_default()),
            x.transaction_witness_set.plutus_data.as_ref().map(|d| d.iter().map(|p| minicbor::to_vec(&**p).unwrap_or_default()).collect()),
            x.transaction_witness_set.redeemer.as_ref().map(|r| r.len()).unwrap_or(0), alonzo::verif_hooks::cost_model_bytes()),
        MultiEraTx::Babbage(x) => {
            let langs: Vec<pallas_primitives::babbage::Language> = used.iter().map(|k| if *k == 0 { pallas_primitives::babbage::Language::PlutusV1 } else { pallas_primitives::babbage::Language::PlutusV2 }).collect();
            (x.transaction_body.script_data_hash.map(|h| h.to_vec()),
             x.transaction_witness_set.redeemer.as_ref().map(|r| minicbor::to_vec(r).unwrap_or_default()),
             x.transaction_witness_set.plutus_data.as_ref().map(|d| d.iter().map(|p| minicbor::to_vec(&**p).unwrap_or_default()).collect()),
             x.transaction_witness_set.redeemer.as_ref().map(|r| r.len()).unwrap_or(0),
             babbage::verif_hooks::cost_model_bytes(&langs, f.env.prot_magic, f.env.network_id, &f.env.block_slot))
        }
        MultiEraTx::Conway(x) => (x.transaction_body.script_data_hash.map(|h| h.to_vec()), None, None, 0, vec![]),
        _ => (None, None, None, 0, vec![]),
    };
    let ws = if era == "conway" && sdhp.is_some() { txparts::split(f.era, &f.tx_cbor).map(|p| p.wits).unwrap_or_default() } else { vec![] };
    let cms: String = match (&f.env.prot_params, era == "conway" && sdhp.is_some()) {
        (P::Conway(p), true) => { let c = &p.cost_models_for_script_languages; [&c.plutus_v1, &c.plutus_v2, &c.plutus_v3].iter().enumerate().filter_map(|(i, m)| m.as_ref().map(|m| format!("{i}:{}", m.iter().map(|x| x.to_string()).collect::<Vec<_>>().join(".")))).collect::<Vec<_>>().join(";") }
        _ => String::new(),
    };
    let opt_hex = |o: &Option<Vec<u8>>| match o { None => "n".to_string(), Some(b) => hex(b) };
    Some(format!("mintp={} mint={} nat={} v1={} v2={} v3={} pf={} refs={} insc={} sins={} spol={} swd={} wdok={} reds={} wdat={} inres={} idh={} adh={} used={} cm={} byron={} dsr={} anyref={} magic={} sdhp={} ws={} cms={} renc={} dencs={} rcount={rcount} cmb={}",
        mint_present as u8, list(&mintp), list(&native), list(&v1), list(&v2), list(&v3), pf as u8, list(&refs), list(&insc), olist(&sins), list(&spol), olist(&swd), wdok as u8,
        list(&reds), list(&wd), inres as u8, olist(&idh), list(&adh),
        if used.is_empty() { "-".into() } else { used.iter().map(|k| k.to_string()).collect::<String>() }, if cm.is_empty() { "-".into() } else { cm.iter().map(|k| k.to_string()).collect::<String>() },
        byron as u8, dsr as u8, anyref as u8, f.env.prot_magic, opt_hex(&sdhp), hex(&ws), if cms.is_empty() { "-".into() } else { cms }, opt_hex(&renc),
        match &dencs { None => "n".to_string(), Some(v) if v.is_empty() => "-".to_string(), Some(v) => v.iter().map(|b| hex::encode(b)).collect::<Vec<_>>().join(",") }, hex(&cmb)))
}

// ------------------------------------------------------------------------------------------------ views of the linked models

fn value_token(o: &MultiEraOutput) -> String {
    let multi = match o {
        MultiEraOutput::AlonzoCompatible(x, _) => matches!(x.amount, pallas_primitives::alonzo::Value::Multiasset(..)),
        MultiEraOutput::Babbage(x) => match &***x { pallas_primitives::babbage::TransactionOutput::Legacy(l) => matches!(l.amount, pallas_primitives::alonzo::Value::Multiasset(..)), pallas_primitives::babbage::TransactionOutput::PostAlonzo(p) => matches!(p.value, pallas_primitives::alonzo::Value::Multiasset(..)) },
        MultiEraOutput::Conway(x) => match &***x { pallas_primitives::conway::TransactionOutput::Legacy(l) => matches!(l.amount, pallas_primitives::alonzo::Value::Multiasset(..)), pallas_primitives::conway::TransactionOutput::PostAlonzo(p) => matches!(p.value, pallas_primitives::conway::Value::Multiasset(..)) },
        _ => false,
    };
    let mut t = format!("{}{}", if multi { "m" } else { "c" }, o.lovelace_amount());
    if multi { for pa in o.value().assets() { t += &format!(";{}:{}", hx(pa.policy().as_ref()), pa.assets().iter().map(|a| format!("{}={}", hex(a.name()), a.output_coin().unwrap_or(0))).collect::<Vec<_>>().join(",")); } }
    t
}

/// `VAL <shelley era 0|1> <modelled 0|1> I n values O m values M mint`
fn value_section(f: &Fixture) -> Option<String> {
    let tx = MultiEraTx::decode_for_era(f.era, &f.tx_cbor).ok()?;
    let utxos = f.utxos();
    let ins = tx.inputs();
    let has_certs = !tx.certs().is_empty();
    let all_in = ins.iter().all(|i| utxos.contains_key(i));
    let modelled = !has_certs && all_in && !ins.is_empty() && !tx.outputs().is_empty();
    let spent: Vec<String> = ins.iter().filter_map(|i| utxos.get(i).map(value_token)).collect();
    let produced: Vec<String> = tx.outputs().iter().map(value_token).collect();
    let mint_present = match &tx { MultiEraTx::AlonzoCompatible(x, _) => x.transaction_body.mint.is_some(), MultiEraTx::Babbage(x) => x.transaction_body.mint.is_some(), MultiEraTx::Conway(x) => x.transaction_body.mint.is_some(), _ => false };
    let mint = if !mint_present { "-".to_string() } else {
        let g: String = tx.mints().iter().map(|pa| format!(";{}:{}", hx(pa.policy().as_ref()), pa.assets().iter().map(|a| format!("{}={}", hex(a.name()), a.mint_coin().unwrap_or(0))).collect::<Vec<_>>().join(","))).collect();
        if g.is_empty() { ";".to_string() } else { g }
    };
    Some(format!("VAL {} {} I {} {} O {} {} M {mint}", (f.era == Era::Shelley) as u8, modelled as u8, spent.len(), spent.join(" "), produced.len(), produced.join(" ")).replace("  ", " "))
}

/// `EX v1 v2 v3 enc maxmem maxsteps units..`
fn ex_section(f: &Fixture) -> String {
    let v = super::exunits::view(f);
    let (mm, ms) = params::max_tx_ex_units(&f.env).unwrap_or((0, 0));
    format!("EX {} {} {} {} {mm} {ms}{}", super::exunits::show_cnt(v.v[0]), super::exunits::show_cnt(v.v[1]), super::exunits::show_cnt(v.v[2]), v.enc, super::exunits::units_text(&v.units))
}

/// `WIT W .. I .. R .. N b` (notation of stream `witness`)
fn wit_section(f: &Fixture) -> String {
    if f.era == Era::Byron { return "WIT W none I 0 R none N 1".into(); }
    let msg = super::witness::tx_id(f);
    let w = super::witness::base_wits(f);
    let (vs, _) = super::witness::views(f);
    format!("WIT {} I {} {} {} N {}", super::witness::wits_text(&w, &msg), vs.len(), vs.join(" "), super::witness::req_text(&super::witness::required_signers(f)), super::witness::native_ok(f) as u8).replace("  ", " ")
}

const STATED: [&str; 9] = ["insNotEmpty", "insInUtxo", "validity", "txSize", "minLovelace", "valSize", "networkId", "fee", "auxData"];
fn is_stated(era: &str, r: &str, value_modelled: bool) -> bool {
    match era {
        "byron" => matches!(r, "insNotEmpty" | "txSize"),
        "shelley" => (STATED.contains(&r) && r != "valSize") || matches!(r, "minting" | "witnesses") || (r == "preservation" && value_modelled),
        _ => STATED.contains(&r) || matches!(r, "minting" | "witnesses" | "exUnits" | "languages" | "scriptDataHash" | "wellFormed") || (r == "preservation" && value_modelled),
    }
}

/// the stated predicates, evaluated independently (what the *property* demands of an accepted transaction);
/// `strict` = the collateral rules apply to every transaction with redeemers or Plutus scripts, wherever the scripts are
fn rule_holds(era: &str, r: &str, v: &View, strict: bool) -> Option<bool> {
    let post_alonzo = matches!(era, "alonzo" | "babbage" | "conway");
    Some(match r {
        "insNotEmpty" => v.nin != 0,
        "insInUtxo" if era != "byron" => v.ins.iter().all(|b| *b) && (!post_alonzo || v.col.iter().flatten().all(|c| c.in_utxo)) && (!matches!(era, "babbage" | "conway") || v.refs.iter().all(|b| *b)),
        "validity" if era == "shelley" => v.ttl.map(|t| v.slot <= t).unwrap_or(false),
        "validity" if era != "byron" => v.start.map(|s| s <= v.slot).unwrap_or(true) && v.ttl.map(|t| v.slot <= t).unwrap_or(true),
        "txSize" => v.size <= v.max_size,
        "minLovelace" if era != "byron" => v.outs.iter().all(|o| {
            let need: u128 = match era {
                "shelley" => if o.multi { (o.lovelace as u128).max((27 + o.words as u128) * (v.coins as u128 / 27)) } else { v.coins as u128 },
                "alonzo" => v.coins as u128 * (o.words as u128 + if o.datum_hash { 37 } else { 27 }),
                _ => v.coins as u128 * (o.words as u128 + 160),
            };
            need <= o.lovelace as u128
        }),
        "valSize" if post_alonzo => v.outs.iter().all(|o| o.words <= v.maxval),
        "networkId" if era != "byron" => v.outs.iter().all(|o| o.network == Some(v.envnet)) && (era == "shelley" || v.txnet.map(|n| n == v.envnet).unwrap_or(true)),
        "fee" if era != "byron" => {
            let minfee = v.b as u128 + v.a as u128 * v.size as u128 <= v.fee as u128;
            let needs_collateral = post_alonzo && (v.plutus || (strict && v.redeemers));
            let coll = match &v.col {
                None => false,
                Some(cs) => !cs.is_empty() && cs.len() as u64 <= v.maxcol && cs.iter().all(|c| c.in_utxo && (!c.looked_at || c.script == Some(false))) &&
                    if era == "alonzo" { cs.iter().all(|c| !c.looked_at || ((v.fee as u128 * v.pct as u128) <= c.coin as u128 * 100 && !c.assets)) }
                    else { match v.paid { None => false, Some(p) => (v.fee as u128 * v.pct as u128) <= p as u128 * 100 && v.total.map(|t| t == p).unwrap_or(true) } },
            };
            minfee && (!needs_collateral || coll)
        }
        "auxData" if era != "byron" => if v.auxh && v.aux { v.auxm } else { !v.auxh && !v.aux },
        _ => return None,
    })
}

// ------------------------------------------------------------------------------------------------ generator

fn op_line(toks: &[String]) -> Option<String> {
    let (f, _) = scenario(toks)?;
    let vs = verdicts(&f)?;
    let v = view(&f)?;
    let byron = f.era == Era::Byron;
    let sf = if byron { String::new() } else { format!(" {}", script_facts(&f)?) };
    let val = if byron { "VAL 0 0 I 0 O 0 M -".to_string() } else { value_section(&f)? };
    let ex = if byron || matches!(f.era, Era::Shelley | Era::Allegra | Era::Mary) { "EX - - - none 0 0".to_string() } else { ex_section(&f) };
    Some(format!("rl {} {} | V {} | F {}{sf} | {val} | {ex} | {}", era_tok(&f), toks.join(" "), vs.iter().map(|(r, e)| format!("{r}={}", match e { Ok(()) => "ok".to_string(), Err(s) => s.clone() })).collect::<Vec<_>>().join(" "), facts_text(&v), wit_section(&f)))
}

/// rule-specific mutators for a base (chosen from what the transaction carries)
fn mutators_for(g: &mut Gen, b: &str) -> Vec<String> {
    let Some(f) = base(b) else { return vec![] };
    let Some(v) = view(&f) else { return vec![] };
    let mut m = vec![];
    if f.era == Era::Byron { m.push(format!("maxsize={}", v.size.saturating_sub(1))); m.push(format!("maxsize={}", v.size)); m.push("dropin=0".into()); return m; }
    // every arithmetic threshold exactly on, one below and one above the boundary
    if let Some(t) = v.ttl { m.push(format!("slot={}", t.saturating_add(1))); m.push(format!("slot={t}")); if t > 0 { m.push(format!("slot={}", t - 1)); } }
    if let Some(s) = v.start { if s > 0 { m.push(format!("slot={}", s - 1)); } m.push(format!("slot={s}")); m.push(format!("slot={}", s.saturating_add(1))); }
    m.push(format!("envnet={}", 1 - v.envnet.min(1)));
    m.push(format!("maxsize={}", v.size.saturating_sub(1)));
    m.push(format!("maxsize={}", v.size));
    m.push(format!("maxsize={}", v.size + 1));
    // minimum fee = fee + 1 / fee / fee - 1 (b chosen for the transaction's a and size)
    for d in [1i128, 0, -1] { let b = v.fee as i128 + d - (v.a * v.size) as i128; if b >= 0 && b <= u32::MAX as i128 { m.push(format!("minfee={}:{b}", v.a)); } }
    m.push(format!("coins={}", *g.rng.pick(&[1u64 << 31, 100_000_000, 20_000_000])));
    // minimum lovelace: the largest coins-per-byte (min_utxo_value) every output still meets, and one more
    let post_alonzo = !matches!(f.era, Era::Shelley | Era::Allegra | Era::Mary);
    let n0 = v.outs.iter().filter(|o| post_alonzo || !o.multi).map(|o| if !post_alonzo { o.lovelace } else { o.lovelace / (o.words + if f.era == Era::Alonzo { if o.datum_hash { 37 } else { 27 } } else { 160 }) }).min();
    if let Some(n0) = n0 { m.push(format!("coins={n0}")); m.push(format!("coins={}", n0 + 1)); if n0 > 0 { m.push(format!("coins={}", n0 - 1)); } }
    if post_alonzo {
        m.push("maxval=0".into());
        if let Some(w) = v.outs.iter().map(|o| o.words).max() { m.push(format!("maxval={w}")); m.push(format!("maxval={}", w + 1)); if w > 0 { m.push(format!("maxval={}", w - 1)); } }
    }
    for i in 0..v.nin.min(2) { m.push(format!("dropin={i}")); }
    if let Some(c) = &v.col {
        m.push("maxcol=0".into());
        m.push(format!("maxcol={}", c.len())); if c.len() > 1 { m.push(format!("maxcol={}", c.len() - 1)); }
        // paid collateral = required, required - 1, required + 1 (required = ceil(fee * pct / 100)) for percentages with
        // fee * pct mod 100 in {0, 1, 50, 99}
        for r in [0u64, 1, 50, 99] {
            let Some(p) = (101u64..=400).find(|p| (v.fee as u128 * *p as u128) % 100 == r as u128) else { continue };
            let req = ((v.fee as u128 * p as u128 + 99) / 100) as u64;
            for d in [0i64, -1, 1] { if let Some(t) = req.checked_add_signed(d) { m.push(format!("colpaid={p}:{t}")); } }
        }
        m.push(format!("pct={}", *g.rng.pick(&[100_000u64, 4_000_000_000])));
        for i in 0..c.len().min(2) { m.push(format!("dropcol={i}")); m.push(format!("colscript={i}")); m.push(format!("colassets={i}")); m.push(format!("colcoin={i}:{}", c[i].coin.saturating_sub(1))); m.push(format!("colcoin={i}:1")); }
    }
    for i in 0..v.refs.len().min(2) { m.push(format!("dropref={i}")); }
    for k in [0u64, 1, 3, 4, 5, 6, 7] { m.push(format!("dropwit={k}")); }
    m.push("addred".into());
    m.push("adddatum".into());
    m.push("redmut".into());
    if matches!(f.era, Era::Babbage | Era::Conway) { for i in 0..v.nin.min(2) { m.push(format!("indatum={i}")); } for i in 0..v.refs.len().min(2) { m.push(format!("refbyron={i}")); } }
    if params::max_tx_ex_units(&f.env).is_some() {
        m.push("maxex=0:0".into()); m.push("maxex=1:18446744073709551615".into());
        let units = super::exunits::view(&f).units;
        let (mem, steps) = units.iter().fold((0u64, 0u64), |a, u| (a.0.saturating_add(u.0), a.1.saturating_add(u.1)));
        if !units.is_empty() && mem > 0 && steps > 0 { m.push(format!("maxex={mem}:{steps}")); m.push(format!("maxex={}:{steps}", mem - 1)); m.push(format!("maxex={mem}:{}", steps - 1)); }
    }
    for i in 0..v.nin.min(2) { m.push(format!("incoin={i}:{}", 1_234_567 + i)); }
    if v.aux { m.push("dropaux".into()); m.push("auxflip".into()); }
    if f.era == Era::Conway { for k in 1..=3 { m.push(format!("nocost={k}")); m.push(format!("costmut={k}")); } }
    m
}

/// one mutator per rule that breaks that rule alone (for the structural variants)
fn breaking_mutators(b: &str) -> Vec<String> {
    let Some(f) = base(b) else { return vec![] };
    let Some(v) = view(&f) else { return vec![] };
    let mut m = vec![];
    for i in 0..v.nin.min(2) { m.push(format!("dropin={i}")); }
    if let Some(c) = &v.col { for i in 0..c.len().min(2) { m.push(format!("dropcol={i}")); } }
    for i in 0..v.refs.len().min(2) { m.push(format!("dropref={i}")); }
    if let Some(t) = v.ttl { m.push(format!("slot={}", t.saturating_add(1))); }
    if let Some(s) = v.start { if s > 0 { m.push(format!("slot={}", s - 1)); } }
    m.push(format!("envnet={}", 1 - v.envnet.min(1)));
    m.push(format!("maxsize={}", v.size.saturating_sub(1)));
    { let b = v.fee as i128 + 1 - (v.a * v.size) as i128; if b >= 0 && b <= u32::MAX as i128 { m.push(format!("minfee={}:{b}", v.a)); } }
    m.push("coins=100000000".into());
    if !matches!(f.era, Era::Shelley | Era::Allegra | Era::Mary) { m.push("maxval=0".into()); }
    m.push("dropwit=0".into());
    m.push("dropwit=1".into());
    if v.aux { m.push("dropaux".into()); m.push("auxflip".into()); }
    m.push("incoin=0:1234567".into());
    m
}

pub fn generate(g: &mut Gen) {
    let prev = std::panic::take_hook();
    std::panic::set_hook(Box::new(|info| eprintln!("rules generator panicked: {info}")));
    let r = std::panic::catch_unwind(std::panic::AssertUnwindSafe(|| generate_inner(g)));
    std::panic::set_hook(prev);
    if r.is_err() { std::process::exit(101); }
}

fn generate_inner(g: &mut Gen) {
    let mut bases: Vec<String> = fixtures::all().iter().map(|f| format!("fx:{}", f.name)).collect();
    for era in ["shelley", "mary", "alonzo", "babbage", "conway"] {
        bases.push(format!("sy:{era}"));
        for o in ["ins0", "nottl", "ttl=5", "start=999999999999", "netid=0", "netid=1", "outnet=0", "outcoin=100", "outcoin=999999", "auxhash", "aux", "auxbad", "mint", "mintnoscript", "req", "reqnosig"] { bases.push(format!("sy:{era}:{o}")); }
        if era == "alonzo" { for o in ["outdh", "outdh:mint", "outdh:outcoin=1200000"] { bases.push(format!("sy:{era}:{o}")); } }
    }
    // structural variants: every combination of the optional fields a rule's code branches on (collateral x reference inputs),
    // the other optional fields alone and all together; on each of them every rule is broken alone by one mutator
    let mut variants: Vec<String> = vec![];
    for era in ["shelley", "mary", "alonzo", "babbage", "conway"] {
        for o in ["coll", "ref", "coll:ref", "coll:ref:mint", "coll:ref:aux", "ref:mint", "ref:aux", "ref:nottl", "ref:start=1", "nottl:start=1", "coll:ref:mint:aux:start=1", "coll:nottl", "mint:aux"] {
            if matches!(era, "shelley" | "mary") && (o.contains("coll") || o.contains("ref") || o.contains("nottl")) { continue; }
            if era == "alonzo" && o.contains("ref") { continue; }
            variants.push(format!("sy:{era}:{o}"));
        }
    }
    bases.extend(variants.iter().cloned());
    // every base unmutated and with each of its single mutators (this part is exhaustive and seed-independent)
    let mut all_single: Vec<Vec<String>> = vec![];
    for b in &bases {
        all_single.push(vec![b.clone()]);
        if b.starts_with("fx:") || b.matches(':').count() == 1 { for m in mutators_for(g, b) { all_single.push(vec![b.clone(), m]); } }
        else if variants.contains(b) { for m in breaking_mutators(b) { all_single.push(vec![b.clone(), m]); } }
    }
    let per_case = 6;
    for chunk in all_single.chunks(per_case) { let ops: Vec<String> = chunk.iter().filter_map(|t| op_line(t)).collect(); if !ops.is_empty() { g.case(ops); } }
    // random pairs / triples
    for _ in 0..g.cases {
        let mut ops = vec![];
        for _ in 0..g.rng.range(2, 5) {
            let b = g.rng.pick(&bases).clone();
            let ms = mutators_for(g, &b);
            let mut toks = vec![b];
            if !ms.is_empty() { for _ in 0..g.rng.range(2, 3) { toks.push(g.rng.pick(&ms).clone()); } }
            if let Some(l) = op_line(&toks) { ops.push(l); }
        }
        if !ops.is_empty() { g.case(ops); }
    }
}

// ------------------------------------------------------------------------------------------------ runner

/// which rule a witness-level / parameter mutator is aimed at when it removes something the transaction needs
fn aimed_rule(m: &str) -> Option<&'static str> {
    let k = m.split('=').next().unwrap_or("");
    match k {
        "dropwit" => Some("witnesses-scripts-datums-redeemers"), "nocost" => Some("languages-or-script-integrity"),
        "addred" => Some("redeemer-coverage"), "adddatum" => Some("datum-witnesses"), "costmut" => Some("script-integrity-hash"),
        "incoin" => Some("preservation"), "redmut" => Some("script-integrity-hash"), _ => None,
    }
}

pub fn run_case(case: &Case, out: &mut Out) {
    for op in &case.ops {
        if op[0] != "rl" { out.reply("bad-op".into()); continue; }
        let bar = op.iter().position(|t| t == "|").unwrap_or(op.len());
        let Some((f, effective)) = scenario(&op[2..bar]) else { out.reply("bad-op".into()); continue };
        let era = era_tok(&f);
        let (Some(vs), Some(v)) = (verdicts(&f), view(&f)) else { out.reply("bad-op undecodable".into()); continue };
        let res = guard_mut(|| f.validate());
        let value_modelled = f.era != Era::Byron && value_section(&f).map(|t| t.split(' ').nth(2) == Some("1")).unwrap_or(false);
        let stated_bits: String = vs.iter().filter(|(r, _)| is_stated(era, r, value_modelled)).map(|(r, e)| format!(" {r}={}", e.is_ok() as u8)).collect();
        let accepted = matches!(res, Some(Ok(())));
        match &res {
            None => { out.viol(format!("panic-in-validation era={era}"), op[2..bar].join(" ")); out.panic(); }
            Some(Ok(())) => out.reply(format!("ok |{stated_bits}")),
            Some(Err(e)) => out.reply(format!("err {} |{stated_bits}", err_tok(e))),
        }
        // ---- the property
        let scn = op[2..bar].join(" ");
        if accepted {
            for r in STATED {
                if let Some(false) = rule_holds(era, r, &v, true) {
                    let lenient = rule_holds(era, r, &v, false) == Some(true);
                    out.viol(format!("rule-not-enforced rule={r} era={era}{}", if lenient { " reference-scripts-only" } else { "" }), format!("accepted although the rule fails on: {scn}"));
                }
            }
            for (r, e) in &vs { if e.is_err() { out.viol(format!("rule-fails-alone-but-accepted rule={r} era={era}"), format!("{scn}: check alone says {:?}", e)); } }
        } else if vs.iter().all(|(_, e)| e.is_ok()) {
            out.viol(format!("rejected-although-every-rule-passes era={era}"), scn.clone());
        }
        // required signers, stated independently: every required key hash has a key witness with a valid signature
        if accepted && matches!(f.era, Era::Alonzo | Era::Babbage | Era::Conway) {
            if let Some(reqs) = super::witness::required_signers(&f) {
                let wits = super::witness::base_wits(&f).unwrap_or_default();
                let id = super::witness::tx_id(&f);
                for r in reqs {
                    if !wits.iter().any(|(k, sg)| super::witness::key_hash(k) == r && super::witness::sig_ok(k, sg, &id)) {
                        out.viol(format!("rule-not-enforced rule=required-signers era={era}"), format!("accepted although required signer {r} has no valid key witness: {scn}"));
                    }
                }
            }
        }
        // a mutator that removed a needed part of the witness set / a needed cost model must not be harmless
        if accepted && effective.len() == 1 {
            if let Some(aim) = aimed_rule(&effective[0]) {
                // only when the unmutated base is accepted and the removed part was really used: removing key 5 / 4 / scripts of a
                // transaction that validates them is always needed; harmless removals (e.g. of an unused field) do not occur in
                // accepted fixtures because unneeded scripts / datums / redeemers are themselves rejected
                out.viol(format!("rule-not-enforced rule={aim} era={era} mutator={}", effective[0].split('=').next().unwrap_or("")), format!("accepted: {scn}"));
            }
        }
        out.cov(format!("{era}:{}:{}", if accepted { "accepted" } else { "rejected" }, effective.len().min(3)));
        for m in &effective { out.cov(format!("mut:{}", m.split('=').next().unwrap_or(""))); }
        if !effective.is_empty() { out.nontrivial(); }
    }
}
