//! stream `refmath` — C15: the real `FixedPrecision::{exp, ln, pow}` vs the Lean transcription of the
//! reference algorithms (which IS the digit oracle: the repository's golden files are empty).
//! Independent oracle for "close to the true mathematical value": rigorous 100-digit interval
//! enclosures of e^a and ln a with num-bigint (argument reduction + Taylor with directed rounding;
//! Newton for ln, verified through the exp enclosure). Tolerances are stated in `tol_*` below.
use crate::fw::*;
use num_bigint::BigInt;
use num_integer::Integer;
use num_traits::{One, Signed, ToPrimitive, Zero};
use pallas_math::math::{FixedDecimal, FixedPrecision};
use std::str::FromStr;

pub const NAME: &str = "refmath";

fn ten_pow(p: u32) -> BigInt { num_traits::pow(BigInt::from(10), p as usize) }
const WD: u32 = 100; // working digits of the oracle

/// enclosure of `e^(a / 10^WD) * 10^WD` for an argument INTERVAL `[alo, ahi]` (scaled by 10^WD)
pub fn exp_iv(alo: &BigInt, ahi: &BigInt) -> (BigInt, BigInt) {
    (exp_pt(alo).0, exp_pt(ahi).1)
}

/// enclosure `[lo, hi]` of `e^(a / 10^WD) * 10^WD`
fn exp_pt(a: &BigInt) -> (BigInt, BigInt) {
    let w = ten_pow(WD);
    if a.is_zero() { return (w.clone(), w); }
    let aa = a.abs();
    // argument reduction: r = |a| / 2^k <= 1
    let mut k = 0u32;
    while (&aa >> k) > w { k += 1; }
    let rlo = &aa >> k;                         // floor
    let rhi = &rlo + BigInt::one();             // >= |a| / 2^k
    let taylor = |r: &BigInt, up: bool| -> BigInt {
        let (mut t, mut s) = (w.clone(), w.clone());
        let mut i = 0u64;
        loop {
            i += 1;
            let d = &w * BigInt::from(i);
            t = if up { (&t * r).div_ceil(&d) } else { (&t * r).div_floor(&d) };
            s += &t;
            if t <= BigInt::one() && i >= 2 { break; }
        }
        // r <= 1: the tail after term i is < 2 * (term i) <= 2 units
        if up { s + BigInt::from(4) } else { s }
    };
    let (mut lo, mut hi) = (taylor(&rlo, false), taylor(&rhi, true));
    for _ in 0..k {
        lo = (&lo * &lo).div_floor(&w);
        hi = (&hi * &hi).div_ceil(&w);
    }
    if a.is_positive() { (lo, hi) } else { ((&w * &w).div_floor(&hi), (&w * &w).div_ceil(&lo)) }
}

/// enclosure `[lo, hi]` of `ln(x / 10^WD) * 10^WD` for `x > 0` (Newton from an f64 seed, then
/// VERIFIED: e^lo <= x <= e^hi by the exp enclosure)
pub fn ln_iv(x: &BigInt) -> Option<(BigInt, BigInt)> {
    if !x.is_positive() { return None; }
    let w = ten_pow(WD);
    // seed: ln(x) = ln(mantissa) + digits * ln 10, in f64
    let s = x.to_string();
    let nd = s.len() as i64;
    let lead: f64 = format!("0.{}", &s[..s.len().min(17)]).parse().unwrap_or(0.5);
    let seed = lead.ln() + (nd - WD as i64) as f64 * std::f64::consts::LN_10;
    let mut y = BigInt::from_str(&format!("{:.0}", seed * 1e15)).ok()? * ten_pow(WD - 15);
    for _ in 0..4 {
        let (elo, ehi) = exp_pt(&y);
        let e = (&elo + &ehi) / BigInt::from(2);
        // y += 2 (x - e) / (x + e)
        y += (BigInt::from(2) * (x - &e) * &w) / (x + &e);
    }
    let delta = ten_pow(WD - 60); // e^y >= 1e-34: 1e-60 relative is >= 1e6 working units, far below 1e-34
    let (lo, hi) = (&y - &delta, &y + &delta);
    if exp_pt(&lo).1 <= *x && *x <= exp_pt(&hi).0 { Some((lo, hi)) } else { None }
}

fn mk(d: &BigInt) -> FixedDecimal { FixedDecimal::from_str(&d.to_string(), 34).expect("from_str") }

fn data_of(d: &FixedDecimal) -> Option<BigInt> {
    let s = d.to_string();
    let neg = s.starts_with('-');
    let digits: String = s.chars().filter(|c| c.is_ascii_digit()).collect();
    let v = BigInt::from_str(&digits).ok()?;
    Some(if neg { -v } else { v })
}

fn digits(g: &mut Gen, n: usize) -> BigInt {
    let s: String = (0..n).map(|i| char::from(b'0' + if i == 0 { g.rng.range(1, 9) } else { g.rng.below(10) } as u8)).collect();
    BigInt::from_str(&s).unwrap()
}

/// positive fixed-point value of a given decimal magnitude 10^(m) .. 10^(m+1), m in -30..6
fn magnitude(g: &mut Gen, m: i32) -> BigInt {
    let nd = (34 + m + 1) as usize; // number of digits of the stored integer
    digits(g, nd.max(1))
}

fn gen_pos(g: &mut Gen) -> BigInt {
    let p = ten_pow(34);
    match g.rng.below(12) {
        0 => p.clone(),                                               // 1
        1 => BigInt::from_str("27182818284590452353602874043083282").unwrap() + BigInt::from(g.rng.below(5)) - 2, // e +- 2 ulp
        2 => { let k = g.rng.range(2, 12); let (lo, _) = exp_pt(&(BigInt::from(k) * ten_pow(WD))); lo / ten_pow(WD - 34) + BigInt::from(g.rng.below(3)) - 1 } // e^k +- 1 ulp
        3 => &p + BigInt::from(g.rng.below(1000)) - 500,              // 1 +- tiny
        4 => &p * BigInt::from(9) / 10,                               // 0.9 = 1 - f (leader election)
        5 => &p * BigInt::from(g.rng.range(1, 99)) / 100,             // (0,1): sigma, 1 - f
        6 => &p * BigInt::from(g.rng.range(1, 1000)),                 // integers
        7 => ten_pow(g.rng.range(4, 40) as u32),                      // 1e-30 .. 1e6 exact powers of ten
        _ => { let m = g.rng.range(0, 36) as i32 - 30; magnitude(g, m) }
    }
}

pub fn generate(g: &mut Gen) {
    let p = ten_pow(34);
    for _ in 0..g.cases {
        let n = g.rng.range(2, 8);
        let mut ops = vec![];
        for _ in 0..n {
            ops.push(match g.rng.below(10) {
                0 | 1 | 2 => {
                    // exp: mostly |x| <= 60, sometimes up to 1e3, thorough tier: rarely 1e3..1e5 (results of up to 43 000 digits;
                    // beyond that printing the result takes minutes in the model, so 1e5..1e6 is not sampled for exp)
                    let x = match g.rng.below(12) {
                        0 => BigInt::zero(),
                        1 => BigInt::from(g.rng.range(1, 3)),
                        2 => &p * BigInt::from(g.rng.range(1, 50)),
                        3 => { let m = g.rng.range(0, 2) as i32 + 1; magnitude(g, m) }
                        4 => if g.thorough() && g.rng.chance(1, 40) { let m = g.rng.range(3, 4) as i32; magnitude(g, m) } else { magnitude(g, 0) },
                        5 => &p + BigInt::from(g.rng.below(3)) - 1,
                        _ => { let x = gen_pos(g); if x > &p * BigInt::from(60) { x % (&p * BigInt::from(60)) } else { x } }
                    };
                    format!("exp {}", if g.rng.chance(1, 2) { -x } else { x })
                }
                3 | 4 | 5 => {
                    let x = gen_pos(g);
                    format!("ln {}", if g.rng.chance(1, 30) { -x } else if g.rng.chance(1, 40) { BigInt::zero() } else { x })
                }
                _ => {
                    // pow: keep |y * ln x| moderate; leader-election shape (1 - f)^sigma often
                    let base = match g.rng.below(8) { 0 => BigInt::zero(), 1 => p.clone(), 2 | 3 => &p * BigInt::from(9) / 10, _ => gen_pos(g) };
                    let base = if g.rng.chance(1, 6) { -base } else { base };
                    let y = match g.rng.below(8) {
                        0 => BigInt::zero(),
                        1 => p.clone(),
                        2 => &p * BigInt::from(g.rng.range(2, 9)),
                        3 => &p * BigInt::from(g.rng.range(1, 99)) / 100,           // sigma in (0,1)
                        4 => { let m = -(g.rng.range(1, 10) as i32); magnitude(g, m) }
                        5 => &p / BigInt::from(2),
                        _ => { let m = g.rng.range(0, 2) as i32 - 1; magnitude(g, m) }
                    };
                    let y = if g.rng.chance(1, 4) { -y } else { y };
                    format!("pow {base} {y}")
                }
            });
        }
        g.case(ops);
    }
}

/// allowed distance to the true value, in units of 10^-34 (documented, empirical — the reference
/// states no bound; its loops stop at differences below EPS = 1e-24): relative 1e-23 of the
/// magnitude involved, plus the absolute effect of one-ulp rounding of intermediate quotients.
/// distribution tag: observed distance to the true interval as a fraction of the tolerance
fn bucket(out: &mut Out, what: &str, d: &BigInt, tlo: &BigInt, thi: &BigInt, tol: &BigInt) {
    let dist = if d < tlo { tlo - d } else if d > thi { d - thi } else { BigInt::zero() };
    let tag = if dist.is_zero() { "inside-true-interval" } else if &dist * BigInt::from(1000) <= *tol { "<=tol/1000" }
        else if &dist * BigInt::from(10) <= *tol { "<=tol/10" } else if dist <= *tol { "<=tol" } else { ">tol" };
    out.cov(format!("oracle:{what}:{tag}"));
}

/// ln: the continued fraction stops at convergent differences below EPS = 1e-24 (absolute, on a
/// value in [0,1]) and the integer part n comes from e^n rounded to 1e-34: absolute 2e-24 per unit of
/// |ln x| + 1, plus the effect of a one-ulp error of x / e^n (~ 8 ulp / x).
fn tol_ln(true_ln: &BigInt, x: &BigInt) -> BigInt {
    let p = ten_pow(34);
    BigInt::from(2) * ten_pow(10) * (true_ln.abs() / &p + BigInt::one()) + (&p * BigInt::from(8)) / x
}

fn tol_rel(v: &BigInt) -> BigInt { v.abs() / ten_pow(23) + BigInt::from(100) }

pub fn run_case(case: &Case, out: &mut Out) {
    let p = ten_pow(34);
    let up = ten_pow(WD - 34);
    let (mut big, mut small, mut negbase) = (false, false, false);
    for op in &case.ops {
        match (op[0].as_str(), op.len()) {
            ("exp", 2) => {
                let Ok(x) = BigInt::from_str(&op[1]) else { out.reply("bad-op".into()); continue };
                let dx = mk(&x);
                let r = guard(move || dx.exp());
                match &r {
                    None => out.viol("exp-panics", format!("exp({x})")),
                    Some(rd) => if let Some(d) = data_of(rd) {
                        let (lo, hi) = exp_pt(&(&x * &up));
                        let (tlo, thi) = (lo.div_floor(&up), hi.div_ceil(&up));
                        // relative tolerance grows with the scaling exponent n = ceil(|x|)
                        let n = x.abs().div_ceil(&p) + BigInt::one();
                        let tol = tol_rel(&thi) * &n;
                        bucket(out, "exp", &d, &tlo, &thi, &tol);
                        if d < &tlo - &tol || d > &thi + &tol {
                            out.viol(format!("exp-far-from-true {}", if x.is_negative() { "neg" } else { "nonneg" }), format!("exp({x}) = {d}, true in [{tlo}, {thi}], tolerance {tol}"));
                        }
                        if x.abs() > &p * BigInt::from(10) { big = true; }
                        if x.abs() < p { small = true; }
                    }
                }
                match r { Some(d) => out.ok(d.to_string()), None => out.panic() }
            }
            ("ln", 2) => {
                let Ok(x) = BigInt::from_str(&op[1]) else { out.reply("bad-op".into()); continue };
                let dx = mk(&x);
                let r = guard(move || dx.ln());
                match &r {
                    None => if x.is_positive() { out.viol("ln-panics-on-positive", format!("ln({x})")) },
                    Some(rd) => {
                        if !x.is_positive() { out.viol("ln-accepts-nonpositive", format!("ln({x}) = {rd}")); }
                        else if let (Some(d), Some((lo, hi))) = (data_of(rd), ln_iv(&(&x * &up)).or_else(|| { out.cov("oracle:ln:enclosure-failed"); None })) {
                            let (tlo, thi) = (lo.div_floor(&up), hi.div_ceil(&up));
                            // x / e^n is formed from quantities rounded to 1e-34: absolute effect ~ ulp / x
                            let tol = tol_ln(&thi, &x);
                            bucket(out, "ln", &d, &tlo, &thi, &tol);
                            if d < &tlo - &tol || d > &thi + &tol {
                                out.viol("ln-far-from-true", format!("ln({x}) = {d}, true in [{tlo}, {thi}], tolerance {tol}"));
                            }
                            if x < p { small = true; } else if x > &p * BigInt::from(10) { big = true; }
                        }
                    }
                }
                match r { Some(d) => out.ok(d.to_string()), None => out.panic() }
            }
            ("pow", 3) => {
                let (Ok(x), Ok(y)) = (BigInt::from_str(&op[1]), BigInt::from_str(&op[2])) else { out.reply("bad-op".into()); continue };
                let (dx, dy) = (mk(&x), mk(&y));
                let r = guard(move || dx.pow(&dy));
                match &r {
                    None => if !(x.is_zero() && y.is_negative()) { out.viol("pow-panics", format!("pow({x}, {y})")) },
                    Some(rd) => if let Some(d) = data_of(rd) {
                        if x.is_negative() { negbase = true; }
                        let integral_y = y.is_multiple_of(&p);
                        if y.is_zero() || x == p { if d != p { out.viol("pow-special", format!("pow({x}, {y}) = {d}, expected 1")); } }
                        else if y == p { if d != x { out.viol("pow-special", format!("pow({x}, 1) = {d}")); } }
                        else if x.is_zero() { if !d.is_zero() { out.viol("pow-special", format!("pow(0, {y}) = {d}")); } }
                        else if x.is_positive() || integral_y {
                            // true value: sign * e^(y ln|x|)
                            if let Some((llo, lhi)) = ln_iv(&(x.abs() * &up)).or_else(|| { out.cov("oracle:pow:enclosure-failed"); None }) {
                                let w = ten_pow(WD);
                                let yy = &y * &up;
                                let (a, b) = ((&yy * &llo).div_floor(&w), (&yy * &lhi).div_ceil(&w));
                                let (alo, ahi) = if a <= b { (a, b) } else { (b, a) };
                                let (elo, ehi) = exp_iv(&alo, &ahi);
                                let neg = x.is_negative() && (&y / &p).is_odd();
                                let (tlo, thi) = if neg { (-ehi.div_ceil(&up), -elo.div_floor(&up)) } else { (elo.div_floor(&up), ehi.div_ceil(&up)) };
                                // error of ln (above) multiplied by |y| enters the exponent; then the exp tolerance
                                let ln_tol = tol_ln(&lhi.div_ceil(&up), &x.abs());
                                let exp_arg_err = (&ln_tol * y.abs()).div_ceil(&p) + BigInt::one();
                                let n = ahi.abs().max(alo.abs()).div_ceil(&w) + BigInt::one();
                                let mag = thi.abs().max(tlo.abs());
                                let tol = tol_rel(&mag) * &n + (&mag * &exp_arg_err * BigInt::from(2)).div_ceil(&p) + BigInt::from(1000);
                                bucket(out, "pow", &d, &tlo, &thi, &tol);
                                if d < &tlo - &tol || d > &thi + &tol {
                                    out.viol(format!("pow-far-from-true base={}", if x.is_negative() { "neg" } else { "pos" }), format!("pow({x}, {y}) = {d}, true in [{tlo}, {thi}], tolerance {tol}"));
                                }
                            }
                        }
                    }
                }
                match r { Some(d) => out.ok(d.to_string()), None => out.panic() }
            }
            _ => out.reply("bad-op".into()),
        }
    }
    if big { out.cov("argument>10"); }
    if small { out.cov("argument<1"); }
    if negbase { out.cov("negative-base"); }
    // non-trivial: the case exercises both a small (<1) and a large (>10) argument of exp/ln
    if big && small { out.nontrivial(); }
}
