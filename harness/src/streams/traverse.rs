//! stream `traverse` — C30: MultiEraBlock::{decode, era, txs, tx_count} + MultiEraTx::{hash, is_valid}
//! and the raw witness / auxiliary-data bytes of every traversed transaction, on corpus blocks and on
//! blocks re-assembled at the CBOR level (random invalid lists, sparse / duplicate-key aux maps,
//! missing witness sets, definite / indefinite containers); `probe` exercises probe::block_era.
use crate::fw::*;
use pallas_codec::utils::Nullable;
use pallas_crypto::hash::Hasher;
use pallas_traverse::{probe, Era, MultiEraBlock, MultiEraMeta, MultiEraTx};

#[path = "../fixtures/w12.rs"]
mod fx;
#[path = "../fixtures/w12_cst.rs"]
mod cst;

pub const NAME: &str = "traverse";

fn head(out: &mut Vec<u8>, major: u8, n: u64) {
    let m = major << 5;
    if n < 24 { out.push(m | n as u8) }
    else if n < 256 { out.push(m | 24); out.push(n as u8) }
    else if n < 65536 { out.push(m | 25); out.extend_from_slice(&(n as u16).to_be_bytes()) }
    else if n < (1 << 32) { out.push(m | 26); out.extend_from_slice(&(n as u32).to_be_bytes()) }
    else { out.push(m | 27); out.extend_from_slice(&n.to_be_bytes()) }
}
fn array(out: &mut Vec<u8>, items: &[Vec<u8>], indef: bool) {
    if indef { out.push(0x9f) } else { head(out, 4, items.len() as u64) }
    for i in items { out.extend_from_slice(i); }
    if indef { out.push(0xff) }
}

#[derive(Default)]
struct Pool { headers: Vec<Vec<u8>>, txs: Vec<(Vec<u8>, Vec<u8>)>, auxs: Vec<Vec<u8>> }

fn pools() -> [Pool; 3] {
    let mut ps: [Pool; 3] = Default::default();
    for (_n, b) in fx::hex_files("block") {
        if b.len() > 200_000 { continue; }
        let Some(rb) = fx::split_block(&b) else { continue };
        let p = match rb.tag { 2..=5 => 0, 6 => 1, 7 => 2, _ => continue };
        ps[p].headers.push(b[rb.header.0..rb.header.1].to_vec());
        for i in 0..rb.bodies.len().min(rb.wits.len()) {
            let (bs, ws) = (rb.bodies[i], rb.wits[i]);
            if bs.1 - bs.0 + ws.1 - ws.0 > 6000 { continue; }
            ps[p].txs.push((b[bs.0..bs.1].to_vec(), b[ws.0..ws.1].to_vec()));
        }
        for (_, s) in &rb.aux { if s.1 - s.0 < 3000 { ps[p].auxs.push(b[s.0..s.1].to_vec()); } }
    }
    ps
}

fn gen_block(rng: &mut Rng, pool: &Pool, fam: usize) -> Vec<u8> {
    let tag: u64 = match fam { 0 => rng.range(2, 5), 1 => 6, _ => 7 };
    let k = rng.below(7) as usize;
    let picks: Vec<&(Vec<u8>, Vec<u8>)> = (0..k).map(|_| rng.pick(&pool.txs)).collect();
    let bodies: Vec<Vec<u8>> = picks.iter().map(|p| p.0.clone()).collect();
    let mut wits: Vec<Vec<u8>> = picks.iter().map(|p| p.1.clone()).collect();
    match rng.below(10) {
        0 if k > 0 => { let d = 1 + rng.below(k as u64) as usize; wits.truncate(k - d); }
        1 => wits.push(rng.pick(&pool.txs).1.clone()),
        _ => {}
    }
    // aux wire map: sparse, possibly repeated / out-of-range keys
    let mut aux = vec![];
    let n_aux = if pool.auxs.is_empty() { 0 } else { rng.below(k as u64 + 2) };
    let mut keys: Vec<u64> = vec![];
    for _ in 0..n_aux {
        let key = if !keys.is_empty() && rng.chance(1, 6) { *rng.pick(&keys) } else { rng.below(k as u64 + 2) };
        keys.push(key);
        let mut e = vec![];
        head(&mut e, 0, key);
        let a: &Vec<u8> = rng.pick(&pool.auxs[..]);
        e.extend_from_slice(a);
        aux.push(e);
    }
    let mut auxm = vec![];
    let indef_map = rng.chance(1, 6);
    if indef_map { auxm.push(0xbf) } else { head(&mut auxm, 5, aux.len() as u64) }
    for e in &aux { auxm.extend_from_slice(e); }
    if indef_map { auxm.push(0xff) }
    let mut parts: Vec<Vec<u8>> = vec![rng.pick(&pool.headers).clone()];
    let mut b = vec![]; array(&mut b, &bodies, rng.chance(1, 6)); parts.push(b);
    let mut w = vec![]; array(&mut w, &wits, rng.chance(1, 6)); parts.push(w);
    parts.push(auxm);
    if rng.chance(4, 5) {
        let n = rng.below(4);
        let inv: Vec<Vec<u8>> = (0..n).map(|_| { let mut v = vec![]; head(&mut v, 0, if rng.chance(1, 8) { rng.u64_edgy() & 0xffff_ffff } else { rng.below(k as u64 + 2) }); v }).collect();
        let mut v = vec![]; array(&mut v, &inv, rng.chance(1, 6)); parts.push(v);
    }
    let mut out = if rng.chance(1, 10) { vec![0x98, 0x02] } else { vec![0x82] };
    if rng.chance(1, 8) { out.push(0x18); out.push(tag as u8) } else { out.push(tag as u8) }
    let indef_inner = rng.chance(1, 8);
    array(&mut out, &parts, indef_inner);
    out
}

fn ops_for(block: &[u8], n: usize, all: bool) -> Vec<String> {
    let mut ops = vec![format!("block {}", hex(block)), format!("probe {}", hex(&block[..block.len().min(12)]))];
    let mut idx: Vec<usize> = if all || n <= 6 { (0..=n).collect() } else { vec![0, 1, n / 2, n - 1, n] };
    idx.dedup();
    for i in idx { ops.push(format!("tx {i}")); }
    ops
}

pub fn generate(g: &mut Gen) {
    // 1. corpus blocks
    for (_name, b) in fx::hex_files("block") {
        let n = fx::split_block(&b).map(|rb| rb.bodies.len().max(rb.byron_payloads.len())).unwrap_or(0);
        g.case(ops_for(&b, n, g.thorough()));
    }
    if let Some(e) = fx::small_ebb() { g.case(ops_for(&e, 0, true)); }
    for b in fx::chunk_blocks(if g.thorough() { 5 } else { 300 }) {
        let n = fx::split_block(&b).map(|rb| rb.bodies.len().max(rb.byron_payloads.len())).unwrap_or(0);
        g.case(ops_for(&b, n, g.thorough()));
    }
    // 2. re-assembled blocks
    let ps = pools();
    for i in 0..g.cases {
        let fam = i % 3;
        if ps[fam].txs.is_empty() || ps[fam].headers.is_empty() { continue; }
        let mut rng = g.rng.fork();
        let b = gen_block(&mut rng, &ps[fam], fam);
        let n = fx::split_block(&b).map(|rb| rb.bodies.len()).unwrap_or(0);
        g.case(ops_for(&b, n, true));
    }
    // 2b. systematic single-site encoding mutants (def<->indef incl. empty containers, head widths,
    //     chunked strings) of small corpus blocks, sites spread evenly and always incl. the last one
    {
        let mut rng = g.rng.fork();
        let mut n_blk = 0;
        for (_name, b) in fx::hex_files("block") {
            if b.len() > (if g.thorough() { 20_000 } else { 4_000 }) { continue; }
            n_blk += 1;
            if !g.thorough() && n_blk > 12 { break; }
            let n = fx::split_block(&b).map(|rb| rb.bodies.len().max(rb.byron_payloads.len())).unwrap_or(0);
            for kind in [0usize, 1, 2, 4, 7] {
                for m in cst::single_site_mutants(&b, kind, if g.thorough() { 60 } else { 10 }, &mut rng) {
                    if MultiEraBlock::decode(&m).is_ok() { g.case(ops_for(&m, n, false)); }
                }
            }
        }
    }
    // 3. probe on arbitrary prefixes: every first byte class x tag encodings
    let mut ops = vec![];
    for first in [vec![0x82u8], vec![0x98, 0x02], vec![0x99, 0x00, 0x02], vec![0x9a, 0, 0, 0, 2], vec![0x9b, 0, 0, 0, 0, 0, 0, 0, 2],
                  vec![0x9f], vec![0x83], vec![0x81], vec![0x80], vec![0xa2], vec![0x98], vec![0x98, 0x03], vec![0x9c], vec![0x02], vec![]] {
        for second in [vec![0x00u8], vec![0x01], vec![0x07], vec![0x08], vec![0x17], vec![0x18, 0x05], vec![0x18, 0x18], vec![0x18], vec![0x19, 0x00, 0x05],
                       vec![0x1a, 0, 0, 0, 5], vec![0x20], vec![0x45], vec![0xf5], vec![0x1c], vec![]] {
            let mut p = first.clone(); p.extend_from_slice(&second); p.extend_from_slice(&[0x85, 0x00]);
            ops.push(format!("probe {}", hex(&p)));
        }
    }
    g.case(ops);
    let n_rand = if g.thorough() { 4000 } else { 300 };
    let ops: Vec<String> = (0..n_rand).map(|_| { let n = g.rng.below(6) as usize; format!("probe {}", hex(&g.rng.bytes(n))) }).collect();
    g.case(ops);
}

fn fnv(bs: &[u8]) -> u64 { bs.iter().fold(0xcbf29ce484222325u64, |h, b| (h ^ *b as u64).wrapping_mul(0x100000001b3)) }

fn raw_parts<'a>(tx: &'a MultiEraTx<'a>) -> (Vec<u8>, Option<Vec<u8>>) {
    fn aux<T: AsRef<[u8]>>(x: Option<T>) -> Option<Vec<u8>> { x.map(|a| a.as_ref().to_vec()) }
    macro_rules! post { ($x:expr) => {{
        let a = match &$x.auxiliary_data { Nullable::Some(a) => Some(a.raw_cbor().to_vec()), _ => None };
        ($x.transaction_witness_set.raw_cbor().to_vec(), a)
    }}; }
    if let Some(x) = tx.as_conway() { return post!(x); }
    if let Some(x) = tx.as_babbage() { return post!(x); }
    if let Some(x) = tx.as_alonzo() { return post!(x); }
    if let Some(x) = tx.as_byron() { return (x.witness.raw_cbor().to_vec(), None); }
    (vec![], None)
}

fn era_name(e: Era) -> &'static str {
    match e { Era::Byron => "Byron", Era::Shelley => "Shelley", Era::Allegra => "Allegra", Era::Mary => "Mary",
              Era::Alonzo => "Alonzo", Era::Babbage => "Babbage", Era::Conway => "Conway", _ => "Other" }
}
fn tag_era(tag: u64) -> Option<&'static str> {
    Some(match tag { 0 | 1 => "Byron", 2 => "Shelley", 3 => "Allegra", 4 => "Mary", 5 => "Alonzo", 6 => "Babbage", 7 => "Conway", _ => return None })
}

pub fn run_case(case: &Case, out: &mut Out) {
    let mut bytes: Vec<u8> = vec![];
    let mut loaded = false;
    let mut kinds = (false, false, false); // sparse aux seen, invalid seen, missing wits seen
    for op in &case.ops {
        match op[0].as_str() {
            "block" => {
                let Some(b) = op.get(1).and_then(|s| unhex(s)) else { out.reply("bad-op".into()); continue };
                bytes = b;
                let bb = bytes.clone();
                let r = guard(move || MultiEraBlock::decode(&bb).ok().map(|blk| (era_name(blk.era()), blk.tx_count(), blk.txs().len())));
                match r {
                    Some(Some((era, count, ntxs))) => {
                        loaded = true;
                        // oracle: byte-level split of the same block
                        if let Some(rb) = fx::split_block(&bytes) {
                            if tag_era(rb.tag) != Some(era) { out.viol("era-vs-wrapper-tag", format!("wrapper tag {} era() {}", rb.tag, era)); }
                            let nb = if rb.tag == 1 { rb.byron_payloads.len() } else { rb.bodies.len() };
                            if count != nb { out.viol("tx-count", format!("tx_count() {} bodies in block {}", count, nb)); }
                            if rb.tag <= 1 || rb.wits.len() >= rb.bodies.len() {
                                if ntxs != nb { out.viol("txs-len", format!("txs().len() {} bodies {} witness sets {}", ntxs, nb, rb.wits.len())); }
                            } else { kinds.2 = true; out.cov("fewer-witness-sets-than-bodies"); }
                            if rb.aux.iter().any(|(k, _)| (*k as usize) < nb) && rb.aux.len() < nb { kinds.0 = true; out.cov("sparse-aux"); }
                            let mut ks: Vec<u64> = rb.aux.iter().map(|x| x.0).collect(); ks.sort(); let l0 = ks.len(); ks.dedup();
                            if ks.len() != l0 { out.cov("duplicate-aux-key"); }
                            if rb.invalid.as_ref().map(|v| v.iter().any(|i| (*i as usize) < nb)).unwrap_or(false) { kinds.1 = true; out.cov("invalid-listed"); }
                            out.cov(format!("tag-{}", rb.tag));
                        } else { out.viol("oracle-split", "byte-level split of a block pallas decoded failed".to_string()); }
                        out.ok(format!("era={era} count={count} ntxs={ntxs}"));
                    }
                    Some(None) => { loaded = false; out.err("decode") }
                    None => { loaded = false; out.panic() }
                }
            }
            "tx" => {
                if !loaded { out.err("noblock"); continue; }
                let i: usize = op.get(1).and_then(|s| s.parse().ok()).unwrap_or(0);
                let bb = bytes.clone();
                let r = guard(move || {
                    let blk = MultiEraBlock::decode(&bb).unwrap();
                    let txs = blk.txs();
                    txs.get(i).map(|t| {
                        let (w, a) = raw_parts(t);
                        let meta_empty = matches!(t.metadata(), MultiEraMeta::Empty);
                        (t.hash().to_vec(), w, a, t.is_valid(), meta_empty)
                    })
                });
                match r {
                    Some(Some((h, w, a, valid, meta_empty))) => {
                        if let Some(rb) = fx::split_block(&bytes) {
                            if rb.tag == 1 {
                                if let Some(p) = rb.byron_payloads.get(i).and_then(|s| fx::children(&bytes, s.0)) {
                                    if p.len() == 2 {
                                        if Hasher::<256>::hash(&bytes[p[0].0..p[0].1]).to_vec() != h { out.viol("tx-body-pairing", format!("byron tx {i}: hash() is not blake2b256 of the {i}-th tx item")); }
                                        if bytes[p[1].0..p[1].1] != w[..] { out.viol("tx-witness-pairing", format!("byron tx {i}: witness bytes differ from the {i}-th payload")); }
                                    }
                                }
                                if !valid { out.viol("tx-validity", format!("byron tx {i} flagged invalid")); }
                            } else if rb.wits.len() >= rb.bodies.len() {
                                let (bs, ws) = (rb.bodies[i], rb.wits[i]);
                                if Hasher::<256>::hash(&bytes[bs.0..bs.1]).to_vec() != h { out.viol("tx-body-pairing", format!("tx {i}: hash() is not blake2b256 of the {i}-th body")); }
                                if bytes[ws.0..ws.1] != w[..] { out.viol("tx-witness-pairing", format!("tx {i}: witness set bytes are not the {i}-th witness set")); }
                                let want_aux = rb.aux.iter().rev().find(|(k, _)| *k == i as u64).map(|(_, s)| bytes[s.0..s.1].to_vec());
                                if want_aux != a { out.viol("tx-aux-pairing", format!("tx {i}: auxiliary data {:?} expected the entry keyed {i}: {:?}", a.as_ref().map(|x| fnv(x)), want_aux.as_ref().map(|x| fnv(x)))); }
                                if a.is_none() && !meta_empty { out.viol("tx-aux-pairing", format!("tx {i}: metadata() non-empty without auxiliary data")); }
                                let listed = rb.invalid.as_ref().map(|v| v.contains(&(i as u64))).unwrap_or(false);
                                if valid == listed { out.viol("tx-validity", format!("tx {i}: is_valid() {} but listed-invalid {}", valid, listed)); }
                            }
                        }
                        out.ok(format!("hash={} wits={} valid={} aux={}", hex(&h), fnv(&w), valid, match &a { Some(x) => format!("some {}", fnv(x)), None => "none".into() }));
                    }
                    Some(None) => out.ok("none"),
                    None => out.panic(),
                }
            }
            "probe" => {
                let Some(b) = op.get(1).and_then(|s| unhex(s)) else { out.reply("bad-op".into()); continue };
                let r = guard(move || match probe::block_era(&b) {
                    probe::Outcome::Matched(e) => era_name(e).to_string(),
                    probe::Outcome::EpochBoundary => "ebb".to_string(),
                    probe::Outcome::Inconclusive => "inconclusive".to_string(),
                });
                match r { Some(s) => { out.cov(format!("probe-{s}")); out.ok(s) } None => out.panic() }
            }
            _ => out.reply("bad-op".into()),
        }
    }
    if kinds.0 || kinds.1 { out.nontrivial(); }
}
