//! stream `decfuzz` — C09: the hand-written decoders that have a Lean model elsewhere in the
//! framework (pallas-codec `utils.rs` wrappers — C03, `PlutusData` — C07, Byron addresses — C19)
//! on random bytes and structure-aware mutations; the outcome (value / error class) of the real
//! decoder is compared with the model's, a panic is a C09 violation. The ops are the `dec`-style ops
//! of the streams `cborwrap`, `pdata` and `byron`, prefixed by `w`, `p`, `b`, `a` (`a parse` = `Address::from_bytes`, model of C18); their own property
//! oracles (C03/C07/C19) are not consulted here, only the reply line and panics.
use crate::fw::*;
#[path = "cborwrap.rs"]
mod cw;
#[path = "pdata.rs"]
mod pd;
#[path = "byron.rs"]
mod by;
#[path = "address.rs"]
mod ad;
#[path = "../fixtures/mutate.rs"]
mod mutate;

pub const NAME: &str = "decfuzz";

/// `(prefix op…, bytes)` bases harvested from the generators of the three streams
fn harvest(g: &mut Gen) -> Vec<(String, Vec<u8>)> {
    let mut res = vec![];
    let mut take = |text: &str, prefix: &str, res: &mut Vec<(String, Vec<u8>)>| {
        for line in text.lines() {
            let t: Vec<&str> = line.split_whitespace().collect();
            match (prefix, t.as_slice()) {
                ("w", ["dec", ty, h]) => if let Some(b) = unhex(h) { res.push((format!("w dec {ty}"), b)) },
                ("p", ["dec", h]) | ("p", ["decx", h, ..]) => if let Some(b) = unhex(h) { res.push(("p dec".to_string(), b)) },
                ("a", ["parse", h]) => if let Some(b) = unhex(h) { res.push(("a parse".to_string(), b)) },
                ("b", [op @ ("frombytes" | "decode" | "corpus"), h]) => if let Some(b) = unhex(h) {
                    let op = if *op == "corpus" { "frombytes" } else { op };
                    res.push((format!("b {op}"), b))
                },
                _ => {}
            }
        }
    };
    let n = if g.thorough() { 200 } else { 40 };
    let mut sub = Gen::new(g.rng.next(), n, "quick"); cw::generate(&mut sub); take(&sub.out, "w", &mut res);
    let mut sub = Gen::new(g.rng.next(), n, "quick"); pd::generate(&mut sub); take(&sub.out, "p", &mut res);
    let mut sub = Gen::new(g.rng.next(), n, "quick"); by::generate(&mut sub); take(&sub.out, "b", &mut res);
    let mut sub = Gen::new(g.rng.next(), n, "quick"); ad::generate(&mut sub); take(&sub.out, "a", &mut res);
    // every registered wrapper type at least once, fresh plutus data, the decoder-branch witnesses, on-chain Byron addresses
    for (name, e) in cw::registry() { for _ in 0..2 { res.push((format!("w dec {name}"), (e.gen_bytes)(&mut g.rng))); } }
    for _ in 0..n { let v = pd::gen_value(&mut g.rng, 0); if let Ok(b) = pallas_codec::minicbor::to_vec(&v) { res.push(("p dec".into(), b)); } }
    for w in mutate::witnesses() {
        res.push(("p dec".into(), w.clone()));
        res.push(("w dec anycbor".into(), w.clone()));
        res.push(("w dec nullable.anycbor".into(), w.clone()));
        res.push(("w dec keepraw.mia.anyuint".into(), w.clone()));
        res.push(("w dec set.u64".into(), w));
    }
    for a in by::corpus_addresses().into_iter().take(if g.thorough() { 400 } else { 60 }) {
        res.push(("b frombytes".into(), a.clone())); res.push(("a parse".into(), a.clone()));
        if let Some((payload, _)) = by::wire_fields(&a) { res.push(("b decode".into(), payload)); }
    }
    res
}

pub fn generate(g: &mut Gen) {
    let bases = harvest(g);
    if bases.is_empty() { return; }
    let wit = mutate::witnesses();
    for i in 0..g.cases {
        let (prefix, base) = bases[if i < bases.len() { i } else { g.rng.below(bases.len() as u64) as usize }].clone();
        let mut ops = vec![format!("{} {}", prefix, hex(&base))];
        let tr = mutate::tree(&base);
        let hs = mutate::heads(&base);
        for j in 0..if g.thorough() { 10 } else { 7 } {
            let mut cur = base.clone();
            match j % 4 {
                0 => { let k = g.rng.below(base.len() as u64 + 1) as usize; cur.truncate(k); }
                1 if !tr.is_empty() => { for e in mutate::gen_struct_edits(&mut g.rng, &base, &tr, &wit) { mutate::apply(&mut cur, &e); } }
                2 if g.rng.chance(1, 4) => { let k = g.rng.below(10) as usize; cur = g.rng.bytes(k); }
                _ => {
                    for _ in 0..(1 + j % 3) {
                        let hs2;
                        let hsr = if cur.len() == base.len() { &hs } else { hs2 = mutate::heads(&cur); &hs2 };
                        let e = mutate::gen_edit(&mut g.rng, &cur, hsr);
                        mutate::apply(&mut cur, &e);
                    }
                }
            }
            if cur.len() > 4096 { cur.truncate(4096); }
            ops.push(format!("{} {}", prefix, hex(&cur)));
        }
        g.case(ops);
    }
}

pub fn run_case(case: &Case, out: &mut Out) {
    let (mut oks, mut errs) = (0, 0);
    for op in &case.ops {
        if op.len() < 3 { out.reply("bad-op".into()); continue; }
        let sub = Case { id: case.id, seed: case.seed, ops: vec![op[1..].to_vec()] };
        let mut tmp = Out { lines: vec![], replies: 0 };
        let r = guard_mut(|| match op[0].as_str() {
            "w" => { cw::run_case(&sub, &mut tmp); true }
            "p" => { pd::run_case(&sub, &mut tmp); true }
            "b" => { by::run_case(&sub, &mut tmp); true }
            "a" => { ad::run_case(&sub, &mut tmp); true }
            _ => false,
        });
        let reply = tmp.lines.iter().find(|l| !l.starts_with('!')).cloned();
        match (r, reply) {
            (Some(true), Some(l)) if l != "panic" => {
                if l.starts_with("ok") { oks += 1 } else { errs += 1 }
                out.cov(format!("{}:{}", op[0], l.split(' ').take(2).collect::<Vec<_>>().join("-")));
                out.reply(l);
            }
            (Some(false), _) => out.reply("bad-op".into()),
            _ => {
                out.viol(format!("panic decode {} {}", op[0], if op[0] == "w" { op[2].as_str() } else { op[1].as_str() }), op.join(" "));
                out.panic();
            }
        }
    }
    if oks > 0 && errs > 0 { out.nontrivial(); }
}
