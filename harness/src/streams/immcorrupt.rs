//! stream `immcorrupt` — C43: the chunk / primary-index / secondary-index readers on truncated
//! files and inconsistent offsets. `chunk` ops carry the three files of one chunk as bytes (tiny
//! synthetic blocks: `chunk::read_blocks` does not decode) and are compared with the Lean model of
//! the readers; `dbread` ops corrupt one file of a multi-chunk database of real blocks and are
//! judged by the oracle only (no panic, nothing but real blocks in chain order or errors).
//! Every case runs in a child process, so an abort (allocation failure) is an outcome, not a crash.
use crate::fw::*;
#[path = "../fixtures/immdb.rs"]
mod fx;
use fx::*;
use pallas_hardano::storage::immutable::{self as imm, chunk, Point};
use std::io::Write as _;

pub const NAME: &str = "immcorrupt";
const CHILD_ENV: &str = "PVH_IMMCORRUPT_CHILD";

fn is_slice_of(hay: &[u8], needle: &[u8]) -> bool {
    needle.is_empty() || hay.windows(needle.len()).any(|w| w == needle)
}

fn chunk_err_class(e: &chunk::Error) -> &'static str {
    match e {
        chunk::Error::CannotOpenChunkFile(_) => "open",
        chunk::Error::CannotReadBlock(_) => "read",
        chunk::Error::SecondaryIndexError(_) => "index",
    }
}

type B = (u64, [u8; 32]);
fn tok(b: &B) -> String { format!("{}:{}", b.0, hex(&b.1)) }
fn digest(bs: &[B]) -> String {
    let mut f: u64 = 0;
    for b in bs { f = (f * 33 + b.0 + u32::from_be_bytes([b.1[0], b.1[1], b.1[2], b.1[3]]) as u64) % 4294967296; }
    match (bs.first(), bs.last()) { (Some(a), Some(z)) => format!("{} {} {} {}", bs.len(), f, tok(a), tok(z)), _ => "0 0".to_string() }
}
fn collect(it: impl Iterator<Item = imm::FallibleBlock>) -> Result<Vec<B>, &'static str> {
    let mut v = vec![];
    for b in it {
        let bytes = b.map_err(|_| "read")?;
        let blk = pallas_traverse::MultiEraBlock::decode(&bytes).map_err(|_| "decode")?;
        let mut h = [0u8; 32];
        h.copy_from_slice(blk.hash().as_ref());
        v.push((blk.slot(), h));
    }
    Ok(v)
}
fn db_err(e: &imm::Error) -> &'static str {
    match e { imm::Error::CannotFindBlock(_) => "notfound", imm::Error::OriginMissing => "origin", imm::Error::CannotReadDir(_) => "readdir",
        imm::Error::CannotDecodeBlock(_) => "decode", imm::Error::ChunkReadError(_) => "read" }
}

/// the work itself (child side, or in-process when already in the child)
fn run_ops(case: &Case, out: &mut Out) {
    let mut any_err = false;
    let mut any_ok_after_corruption = false;
    let mut xdir: Option<CaseDir> = None;
    let mut xlabel = String::new();
    for op in &case.ops {
        match op[0].as_str() {
            "dbx" => {
                // dbx <label> <k> then per chunk: <P> <S> <clen> <nb> (<len> <slot:hash>)*
                let pool = small_pool();
                xlabel = op[1].clone();
                let k: usize = op[2].parse().unwrap();
                let d = CaseDir::new("immx", case.id);
                let mut p = 3;
                let mut total = 0;
                for c in 0..k {
                    let (pb, sb, clen, nb) = (unhex(&op[p]).unwrap(), unhex(&op[p + 1]).unwrap(), op[p + 2].parse::<usize>().unwrap(), op[p + 3].parse::<usize>().unwrap());
                    p += 4;
                    let mut chunk = vec![];
                    for _ in 0..nb {
                        let h: [u8; 32] = unhex(op[p + 1].split_once(':').unwrap().1).unwrap().try_into().unwrap();
                        chunk.extend(&pool.blocks[pool.by_hash[&h]].bytes);
                        p += 2; total += 1;
                    }
                    chunk.truncate(clen);
                    let name = format!("{:05}", 30 + c);
                    std::fs::write(d.path().join(format!("{name}.primary")), &pb).unwrap();
                    std::fs::write(d.path().join(format!("{name}.secondary")), &sb).unwrap();
                    std::fs::write(d.path().join(format!("{name}.chunk")), &chunk).unwrap();
                }
                xdir = Some(d);
                out.ok(format!("{k} {total}"));
            }
            "xreadall" | "xtip" | "xfrom" => {
                let dir = xdir.as_ref().unwrap().path().to_owned();
                let o2 = op.clone();
                let r = guard_mut(move || match o2[0].as_str() {
                    "xreadall" => match imm::read_blocks(&dir) { Err(e) => format!("err {}", db_err(&e)), Ok(it) => match collect(it) { Ok(v) => format!("ok {}", digest(&v)), Err(c) => format!("err {c}") } },
                    "xtip" => match imm::get_tip(&dir) { Err(e) => format!("err {}", db_err(&e)), Ok(None) => "ok none".into(),
                        Ok(Some(Point::Specific(s, h))) => format!("ok some {}:{}", s, hex(&h)), Ok(Some(Point::Origin)) => "ok origin".into() },
                    _ => {
                        let (slot, hash) = (o2[1].parse::<u64>().unwrap(), unhex(&o2[2]).unwrap());
                        match imm::read_blocks_from_point(&dir, Point::Specific(slot, hash)) { Err(e) => format!("err {}", db_err(&e)),
                            Ok(it) => match collect(it) { Ok(v) => format!("ok {}", digest(&v)), Err(c) => format!("err {c}") } }
                    }
                });
                match r {
                    None => { out.viol(format!("panic reading label={xlabel} level=db"), op.join(" ")); out.panic(); }
                    Some(line) => { if line.starts_with("err") { any_err = true; } else if xlabel != "db-intact" { any_ok_after_corruption = true; } out.reply(line); }
                }
            }
            "chunk" => {
                let label = op[1].clone();
                let (p, s, c) = (unhex(&op[2]).unwrap(), unhex(&op[3]).unwrap(), unhex(&op[4]).unwrap());
                let d = CaseDir::new("immc", case.id);
                std::fs::write(d.path().join("00001.primary"), &p).unwrap();
                std::fs::write(d.path().join("00001.secondary"), &s).unwrap();
                std::fs::write(d.path().join("00001.chunk"), &c).unwrap();
                let dir = d.path().to_owned();
                let r = guard_mut(move || chunk::read_blocks(&dir, "00001").map(|rd| rd.collect::<Vec<_>>()));
                match r {
                    None => { out.viol(format!("panic reading label={label}"), "chunk::read_blocks / its iterator panicked"); out.panic(); }
                    Some(Err(_)) => { any_err = true; out.err("open"); }
                    Some(Ok(items)) => {
                        let mut toks = vec![];
                        let mut total = 0usize;
                        for it in &items {
                            match it {
                                Ok(b) => {
                                    total += b.len();
                                    if !is_slice_of(&c, b) { out.viol(format!("block-not-from-file label={label}"), format!("{} bytes", b.len())); }
                                    toks.push(format!("b:{}", hex(b)));
                                }
                                Err(e) => { any_err = true; toks.push(format!("E:{}", chunk_err_class(e))); }
                            }
                        }
                        if total > c.len() { out.viol(format!("more-bytes-than-file label={label}"), format!("{} > {}", total, c.len())); }
                        // op[5..] = the blocks the files were made from
                        let orig: Vec<Vec<u8>> = op[5..].iter().map(|b| unhex(b).unwrap()).collect();
                        if label == "intact" {
                            let want: Vec<String> = op[5..].iter().map(|b| format!("b:{}", b)).collect();
                            if toks != want { out.viol("intact-chunk-misread", format!("{} items vs {} blocks", toks.len(), want.len())); }
                        } else {
                            if items.iter().any(|i| i.is_ok()) { any_ok_after_corruption = true; }
                            if label == "trunc-chunk" {
                                // intact indexes over a shortened chunk file: what is handed out as a block must be one of
                                // the blocks; only the very last item (read to end of file) may be the cut-off head of a block.
                                // (A shortened *index* legitimately merges the tail of the file into the last block.)
                                let n = items.len();
                                for (i, it) in items.iter().enumerate() {
                                    if let Ok(b) = it {
                                        let whole = orig.iter().any(|o| o == b);
                                        let cut_tail = i + 1 == n && orig.iter().any(|o| o.starts_with(b));
                                        if !whole && !cut_tail { out.viol(format!("damaged-block-returned-as-ok label={label}"), format!("item {i} of {n}: {} bytes", b.len())); break; }
                                    }
                                }
                            }
                        }
                        out.ok(format!("[{}]", toks.join(" ")));
                    }
                }
            }
            "dbread" => {
                // dbread <label> <k> <sizes..> <blocks..> | <chunk#> <ext> <mutation..>
                let pool = small_pool();
                let label = op[1].clone();
                let k: usize = op[2].parse().unwrap();
                let sizes: Vec<usize> = op[3..3 + k].iter().map(|s| s.parse().unwrap()).collect();
                let bar = op.iter().position(|t| t == "|").unwrap();
                let hashes: Vec<[u8; 32]> = op[3 + k..bar].iter().map(|s| unhex(s).unwrap().try_into().unwrap()).collect();
                let idx: Vec<usize> = hashes.iter().map(|h| pool.by_hash[h]).collect();
                let d = CaseDir::new("immd", case.id);
                let mut pos = 0;
                let names: Vec<String> = (0..k).map(|c| format!("{:05}", 20 + c)).collect();
                for (c, n) in sizes.iter().enumerate() { write_chunk(pool, d.path(), &names[c], &idx[pos..pos + n], &[]); pos += n; }
                let immutable: usize = sizes[..k - 1].iter().sum();
                let chain: Vec<&[u8]> = idx[..immutable].iter().map(|i| pool.blocks[*i].bytes.as_slice()).collect();
                // the mutation
                let target = d.path().join(format!("{}.{}", names[op[bar + 1].parse::<usize>().unwrap()], op[bar + 2]));
                let mut bytes = std::fs::read(&target).unwrap();
                match op[bar + 3].as_str() {
                    "trunc" => { let n: usize = op[bar + 4].parse().unwrap(); bytes.truncate(n.min(bytes.len())); }
                    "set" => {
                        // set <offset> <hex>: overwrite bytes at offset
                        let at: usize = op[bar + 4].parse().unwrap();
                        for (i, b) in unhex(&op[bar + 5]).unwrap().iter().enumerate() { if at + i < bytes.len() { bytes[at + i] = *b; } }
                    }
                    _ => {}
                }
                std::fs::write(&target, &bytes).unwrap();
                let first = &pool.blocks[idx[0]];
                let mid = &pool.blocks[idx[immutable / 2]];
                let dir = d.path().to_owned();
                let points = vec![(first.slot, first.hash.to_vec()), (mid.slot, mid.hash.to_vec()), (mid.slot + 1, vec![])];
                let r = guard_mut(move || {
                    let all: Option<Vec<Result<Vec<u8>, ()>>> = imm::read_blocks(&dir).ok().map(|it| it.map(|b| b.map_err(|_| ())).collect());
                    let tip = imm::get_tip(&dir).is_ok();
                    let mut from = vec![];
                    for (s, h) in points {
                        from.push(match imm::read_blocks_from_point(&dir, Point::Specific(s, h)) {
                            Ok(it) => Some(it.map(|b| b.is_ok()).collect::<Vec<bool>>()),
                            Err(_) => None,
                        });
                    }
                    (all, tip, from)
                });
                match r {
                    None => { out.viol(format!("panic reading label={label} level=db"), format!("file {} {}", op[bar + 1], op[bar + 2])); }
                    Some((all, _tip, _from)) => {
                        if let Some(items) = all {
                            // whatever is returned as Ok and is a real block must follow the chain order
                            let mut at = 0usize;
                            for b in items.iter().flatten() {
                                if let Some(p) = chain.iter().position(|c| *c == b.as_slice()) {
                                    if p < at { out.viol(format!("db-blocks-out-of-chain-order label={label}"), format!("block {p} after block {}", at - 1)); } else { at = p + 1; }
                                }
                            }
                            if items.iter().any(|i| i.is_err()) { any_err = true; }
                        }
                    }
                }
                out.reply("done".into());
            }
            _ => out.reply("bad-op".into()),
        }
    }
    if any_err { out.cov("some-error-reported"); }
    if any_ok_after_corruption { out.cov("blocks-before-the-damage-still-read"); }
    if any_err && any_ok_after_corruption { out.nontrivial(); }
}

/// run `ops` as one case in a child process; `None` when the child died
fn in_child(case: &Case, ops: &[Vec<String>]) -> Option<Vec<String>> {
    let mut text = format!("case {} {}\n", case.id, case.seed);
    for op in ops { text += &op.join(" "); text.push('\n'); }
    text += "end\n";
    let exe = std::env::current_exe().expect("own path");
    let mut child = std::process::Command::new(exe).args(["run", NAME]).env(CHILD_ENV, "1")
        .stdin(std::process::Stdio::piped()).stdout(std::process::Stdio::piped()).stderr(std::process::Stdio::null()).spawn().ok()?;
    child.stdin.take().unwrap().write_all(text.as_bytes()).ok();
    let res = child.wait_with_output().ok()?;
    let lines: Vec<String> = String::from_utf8_lossy(&res.stdout).lines().filter(|l| !l.starts_with("case ") && *l != "end").map(|l| l.to_string()).collect();
    let replies = lines.iter().filter(|l| !l.starts_with('!')).count();
    if res.status.success() && replies == ops.len() { Some(lines) } else { None }
}

pub fn run_case(case: &Case, out: &mut Out) {
    if std::env::var(CHILD_ENV).is_ok() { return run_ops(case, out); }
    // parent: the case runs in a child process, so an abort (e.g. an allocation of a corrupted
    // length) is observed instead of killing the run; when the child dies the ops are re-run one
    // per child to pin down which one it was
    let push = |out: &mut Out, lines: Vec<String>| for l in lines { if l.starts_with('!') { out.lines.push(l); } else { out.reply(l); } };
    match in_child(case, &case.ops) {
        Some(lines) => push(out, lines),
        None => for op in &case.ops {
            match in_child(case, std::slice::from_ref(op)) {
                Some(lines) => push(out, lines),
                None => {
                    out.viol(format!("abort reading label={}", op.get(1).cloned().unwrap_or_default()), format!("the process died during `{} {}`", op[0], op.get(1).cloned().unwrap_or_default()));
                    out.reply("abort".into());
                }
            }
        },
    }
}

// ------------------------------------------------------------------------------------------ generator

struct Base { p: Vec<u8>, s: Vec<u8>, c: Vec<u8>, blocks: Vec<Vec<u8>> }

fn base(g: &mut Gen, n: usize) -> Base {
    let blocks: Vec<Vec<u8>> = (0..n).map(|i| { let l = if g.rng.chance(1, 8) { 0 } else { g.rng.range(1, 9) as usize }; (0..l).map(|j| (0x10 * (i as u8 + 1)).wrapping_add(j as u8)).collect() }).collect();
    let (mut c, mut s) = (vec![], vec![]);
    for b in &blocks { s.extend(secondary_entry(c.len() as u64, &[0xabu8; 32], 7)); c.extend(b); }
    let gaps: Vec<usize> = (0..n).map(|_| if g.rng.chance(1, 3) { g.rng.range(1, 3) as usize } else { 0 }).collect();
    Base { p: primary_index(n, &gaps), s, c, blocks }
}
fn chunk_op(label: &str, p: &[u8], s: &[u8], c: &[u8], blocks: Option<&[Vec<u8>]>) -> String {
    let mut l = format!("chunk {} {} {} {}", label, hex(p), hex(s), hex(c));
    if let Some(bs) = blocks { for b in bs { l += &format!(" {}", hex(b)); } }
    l
}
fn edgy(g: &mut Gen, width: u32) -> u64 {
    let max = if width == 4 { u32::MAX as u64 } else { u64::MAX };
    match g.rng.below(8) { 0 => 0, 1 => max, 2 => max - 1, 3 => 1, 4 => 55, 5 => 57, 6 => g.rng.below(400), _ => g.rng.next() & max }
}

pub fn generate(g: &mut Gen) {
    let pool = small_pool();
    // 1. truncation enumeration: every cut of each of the three files of a base chunk
    let nbases = if g.thorough() { 12 } else { 2 };
    for bi in 0..nbases {
        let n = if g.thorough() { 1 + (bi % 4) + g.rng.below(3) as usize } else { 3 + bi };
        let b = base(g, n);
        let mut ops = vec![chunk_op("intact", &b.p, &b.s, &b.c, Some(&b.blocks))];
        for cut in 0..b.p.len() { ops.push(chunk_op("trunc-primary", &b.p[..cut], &b.s, &b.c, Some(&b.blocks))); }
        g.case(ops);
        let mut ops = vec![];
        for cut in 0..b.s.len() { ops.push(chunk_op("trunc-secondary", &b.p, &b.s[..cut], &b.c, Some(&b.blocks))); }
        g.case(ops);
        let mut ops = vec![];
        for cut in 0..b.c.len() { ops.push(chunk_op("trunc-chunk", &b.p, &b.s, &b.c[..cut], Some(&b.blocks))); }
        if !ops.is_empty() { g.case(ops); }
    }
    // 2. inconsistent offsets and random damage
    for case in 0..g.cases {
        let mut ops = vec![];
        if case % 3 == 2 {
            // database level: one damaged file among the chunks of a small database of real blocks
            let total = g.rng.range(3, 9) as usize;
            let start = g.rng.below((pool.blocks.len() - total) as u64) as usize;
            let k = g.rng.range(2, 3) as usize;
            let mut sizes = vec![1usize; k];
            for _ in 0..total - k { let i = g.rng.below(k as u64) as usize; sizes[i] += 1; }
            let hashes: Vec<String> = (0..total).map(|i| hex(&pool.blocks[start + i].hash)).collect();
            let which = g.rng.below(k as u64 - 1) as usize;        // an immutable chunk
            let n = sizes[which];
            // the same kind of damage with the files spelled out, tied to the composed Lean model
            {
                let mut ps: Vec<(Vec<u8>, Vec<u8>, usize, Vec<usize>)> = vec![];   // primary, secondary, chunk length, block indexes
                let mut pos = 0;
                for n in &sizes {
                    let idx: Vec<usize> = (start + pos..start + pos + n).collect();
                    let (mut sec, mut off) = (vec![], 0u64);
                    for i in &idx { let b = &pool.blocks[*i]; sec.extend(secondary_entry(off, &b.hash, b.slot)); off += b.bytes.len() as u64; }
                    ps.push((primary_index(*n, &[]), sec, off as usize, idx));
                    pos += n;
                }
                let label = match g.rng.below(10) {
                    0 => "db-intact",
                    8 | 9 => { ps[0].0.truncate(0); "db-empty-primary" }      // the oldest chunk does not open at all
                    1 => { let l = ps[which].0.len() as u64; let n = if g.rng.chance(1, 3) { 0 } else { g.rng.below(l + 1) as usize }; ps[which].0.truncate(n); "db-trunc-primary" }
                    2 => { let l = ps[which].1.len() as u64; ps[which].1.truncate(g.rng.below(l + 1) as usize); "db-trunc-secondary" }
                    3 => { let l = ps[which].2 as u64; ps[which].2 = g.rng.below(l + 1) as usize; "db-trunc-chunk" }
                    4 => { let at = 56 * g.rng.below(n as u64) as usize; let v = if g.rng.chance(1, 2) { edgy(g, 8) } else { g.rng.below(ps[which].2 as u64 + 3) }; ps[which].1[at..at + 8].copy_from_slice(&v.to_be_bytes()); "db-sec-offset" }
                    5 => { let at = 1 + 4 * g.rng.below(n as u64 + 1) as usize; let v = if g.rng.chance(1, 2) { edgy(g, 4) as u32 } else { g.rng.below(56 * n as u64 + 60) as u32 }; ps[which].0[at..at + 4].copy_from_slice(&v.to_be_bytes()); "db-prim-offset" }
                    6 => { let at = g.rng.below(ps[which].1.len() as u64) as usize; ps[which].1[at] = g.rng.next() as u8; "db-sec-garbage" }
                    _ => { let at = g.rng.below(ps[which].0.len() as u64) as usize; ps[which].0[at] = g.rng.next() as u8; "db-prim-garbage" }
                };
                let mut line = format!("dbx {} {}", label, k);
                for (p, s, clen, idx) in &ps {
                    line += &format!(" {} {} {} {}", hex(p), hex(s), clen, idx.len());
                    for i in idx { let b = &pool.blocks[*i]; line += &format!(" {} {}:{}", b.bytes.len(), b.slot, hex(&b.hash)); }
                }
                ops.push(line);
                ops.push("xreadall".into()); ops.push("xtip".into());
                let immutable: usize = sizes[..k - 1].iter().sum();
                for _ in 0..4 {
                    let b = &pool.blocks[start + g.rng.below(immutable as u64) as usize];
                    ops.push(match g.rng.below(4) { 0 => format!("xfrom {} -", b.slot + 1), 1 => format!("xfrom {} -", b.slot), _ => format!("xfrom {} {}", b.slot, hex(&b.hash)) });
                }
            }
            for _ in 0..3 {
                let (ext, label, mutation) = match g.rng.below(6) {
                    0 => ("primary", "db-trunc-primary", format!("trunc {}", g.rng.below(5 + 4 * n as u64))),
                    1 => ("secondary", "db-trunc-secondary", format!("trunc {}", g.rng.below(56 * n as u64 + 1))),
                    2 => ("chunk", "db-trunc-chunk", format!("trunc {}", g.rng.below(2000))),
                    3 => ("secondary", "db-sec-offset", format!("set {} {}", 56 * g.rng.below(n as u64), hex(&edgy(g, 8).to_be_bytes()))),
                    4 => ("primary", "db-prim-offset", format!("set {} {}", 1 + 4 * g.rng.below(n as u64 + 1), hex(&(edgy(g, 4) as u32).to_be_bytes()))),
                    _ => ("secondary", "db-sec-garbage", format!("set {} {}", g.rng.below(56 * n as u64), hex(&g.rng.bytes(9)))),
                };
                ops.push(format!("dbread {} {} {} {} | {} {} {}", label, k, sizes.iter().map(|s| s.to_string()).collect::<Vec<_>>().join(" "), hashes.join(" "), which, ext, mutation));
            }
        } else {
            let n = g.rng.range(1, 6) as usize;
            let b = base(g, n);
            ops.push(chunk_op("intact", &b.p, &b.s, &b.c, Some(&b.blocks)));
            for _ in 0..g.rng.range(3, 8) {
                let (mut p, mut s, c) = (b.p.clone(), b.s.clone(), b.c.clone());
                let label = match g.rng.below(9) {
                    0 | 1 => { let i = g.rng.below(n as u64) as usize; s[56 * i..56 * i + 8].copy_from_slice(&edgy(g, 8).to_be_bytes()); "sec-offset" }
                    2 => { let i = g.rng.below(n as u64) as usize; let v = (b.c.len() as u64).wrapping_add(g.rng.below(3)).wrapping_sub(1); s[56 * i..56 * i + 8].copy_from_slice(&v.to_be_bytes()); "sec-offset-near-eof" }
                    3 if n >= 2 => { let i = g.rng.below(n as u64 - 1) as usize; let (a, bb) = (s[56 * i..56 * i + 8].to_vec(), s[56 * (i + 1)..56 * (i + 1) + 8].to_vec()); s[56 * i..56 * i + 8].copy_from_slice(&bb); s[56 * (i + 1)..56 * (i + 1) + 8].copy_from_slice(&a); "sec-offset-swap" }
                    4 | 5 => { let m = (p.len() - 1) / 4; let i = g.rng.below(m as u64) as usize; p[1 + 4 * i..5 + 4 * i].copy_from_slice(&(edgy(g, 4) as u32).to_be_bytes()); "prim-offset" }
                    6 => { let m = (p.len() - 1) / 4; let i = g.rng.below(m as u64) as usize; let v = g.rng.below(3 * 56) as u32; p[1 + 4 * i..5 + 4 * i].copy_from_slice(&v.to_be_bytes()); "prim-offset-small" }
                    7 => { let k = g.rng.range(1, 4); for _ in 0..k { let i = g.rng.below(s.len() as u64) as usize; s[i] = g.rng.next() as u8; } "sec-random-bytes" }
                    _ => { let k = g.rng.range(1, 3); for _ in 0..k { let i = g.rng.below(p.len() as u64) as usize; p[i] = g.rng.next() as u8; } "prim-random-bytes" }
                };
                ops.push(chunk_op(label, &p, &s, &c, None));
            }
        }
        g.case(ops);
    }
}
