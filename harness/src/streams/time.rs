//! stream `time` — C32: slot / epoch / wall-clock arithmetic of `pallas_traverse::wellknown::GenesisValues`
//! (`absolute_slot_to_relative`, `relative_slot_to_absolute`, `slot_to_wallclock`, `shelley_start_epoch`,
//! `from_magic`) against `Model/Time.lean` + the generated `Gen/Consts.lean`.
//!
//! Property oracle (independent of the Lean model; evaluated for the four well-known networks on slots
//! below 2^40): slot-in-epoch < epoch size in slots of the slot's era, the inverse returns the slot, the
//! clock is strictly increasing and advances by the era's slot length per slot.
use crate::fw::*;
use pallas_traverse::wellknown::*;

pub const NAME: &str = "time";

const BOUND: u64 = 1 << 40;
const NETS: [&str; 4] = ["mainnet", "testnet", "preview", "preprod"];

fn by_name(n: &str) -> Option<GenesisValues> {
    match n {
        "mainnet" => Some(GenesisValues::mainnet()),
        "testnet" => Some(GenesisValues::testnet()),
        "preview" => Some(GenesisValues::preview()),
        "preprod" => Some(GenesisValues::preprod()),
        _ => None,
    }
}

fn show_g(g: &GenesisValues) -> String {
    format!("{} {} {} {} {} {} {} {}", g.byron_epoch_length, g.byron_slot_length, g.byron_known_slot, g.byron_known_time,
        g.shelley_epoch_length, g.shelley_slot_length, g.shelley_known_slot, g.shelley_known_time)
}

fn interesting_slot(r: &mut Rng, g: &GenesisValues) -> u64 {
    let sks = g.shelley_known_slot;
    let bsz = (g.byron_epoch_length / g.byron_slot_length.max(1)).max(1) as u64;
    let ssz = (g.shelley_epoch_length / g.shelley_slot_length.max(1)).max(1) as u64;
    let jitter = |r: &mut Rng, c: u64| -> u64 { let d = r.below(5); if r.chance(1, 2) { c.saturating_sub(d) } else { c.saturating_add(d) } };
    match r.below(12) {
        0 => r.below(40),
        1 => jitter(r, sks),                                                       // era boundary
        2 => { let k = r.below(sks / bsz + 2); jitter(r, k * bsz) }                // Byron epoch boundaries (in slots)
        3 => { let k = r.below(12); jitter(r, k * g.byron_epoch_length as u64) }   // multiples of the epoch length in seconds
        4 => { let k = r.below(600); jitter(r, sks.saturating_add(k * ssz)) }      // Shelley epoch boundaries
        5 => if sks > 0 { r.below(sks) } else { r.below(1000) },                    // anywhere in Byron
        6 => sks.saturating_add(r.below(1 << 28)),                                  // realistic Shelley slots
        7 => r.below(BOUND),
        8 => BOUND - 1 - r.below(3),
        9 => bsz.saturating_sub(1) + r.below(3),                                   // end of the first Byron epoch
        10 => r.below(bsz.max(1)),                                                  // first Byron epoch
        _ => sks.saturating_add(r.below(ssz * 3)),
    }
}

pub fn generate(g: &mut Gen) {
    for i in 0..g.cases {
        let mut ops = vec![];
        let custom = i % 7 == 6;
        let gv = if custom {
            // arbitrary record: model/code correspondence only (zero lengths and overflow included)
            let r = &mut g.rng;
            let bsl = *r.pick(&[20u64, 20, 1, 2, 7, 0, 65535, 4294967295]);
            let bel = *r.pick(&[432000u64, 86400, 21600, 100, 0, 7, 4294967295]);
            let ssl = *r.pick(&[1u64, 1, 1, 2, 5, 0]);
            let sel = *r.pick(&[432000u64, 86400, 10, 0, 4294967295]);
            let bks = if r.chance(1, 4) { r.below(100) } else { 0 };
            let sks = match r.below(4) { 0 => 0, 1 => r.below(50) * (if bsl > 0 { (bel / bsl).max(1) } else { 1 }), 2 => r.below(1 << 24), _ => r.u64_edgy() };
            let bkt = if r.chance(1, 6) { r.u64_edgy() } else { 1500000000 + r.below(1 << 28) };
            let skt = if r.chance(1, 6) { r.u64_edgy() } else { bkt.wrapping_add(sks.wrapping_mul(bsl)) };
            ops.push(format!("custom {bel} {bsl} {bks} {bkt} {sel} {ssl} {sks} {skt}"));
            GenesisValues { magic: 0, network_id: 0, byron_epoch_length: bel as u32, byron_slot_length: bsl as u32, byron_known_slot: bks,
                byron_known_hash: String::new(), byron_known_time: bkt, shelley_epoch_length: sel as u32, shelley_slot_length: ssl as u32,
                shelley_known_slot: sks, shelley_known_hash: String::new(), shelley_known_time: skt }
        } else {
            let n = NETS[(i % 7) % 4];
            ops.push(format!("net {n}"));
            by_name(n).unwrap()
        };
        let n_ops = g.rng.range(8, 40);
        for _ in 0..n_ops {
            let s = if g.rng.chance(1, 25) { g.rng.u64_edgy() } else { interesting_slot(&mut g.rng, &gv) };
            ops.push(match g.rng.below(20) {
                0..=6 => format!("rt {s}"),
                7..=9 => format!("pair {s} {}", s.saturating_add(1)),
                10..=11 => { let t = interesting_slot(&mut g.rng, &gv); let (a, b) = if s <= t { (s, t) } else { (t, s) }; format!("pair {a} {b}") }
                12 => format!("pair {s} {}", s.saturating_add(g.rng.range(1, 30000))),
                13 => format!("rel {s}"),
                14 => format!("wall {s}"),
                15..=16 => {
                    let e = match g.rng.below(4) { 0 => g.rng.below(600), 1 => g.rng.u64_edgy(), _ => g.rng.below(260) };
                    let r = match g.rng.below(4) { 0 => g.rng.u64_edgy(), _ => g.rng.below(432001) };
                    format!("abs {e} {r}")
                }
                17 => "start".to_string(),
                18 => format!("magic {}", *g.rng.pick(&[764824073u64, 1097911063, 2, 1, 0, 3, 42, 764824074])),
                _ => format!("rt {}", s),
            });
        }
        g.case(ops);
    }
}

fn era_is_byron(g: &GenesisValues, slot: u64) -> bool { slot < g.shelley_known_slot }
fn epoch_size(g: &GenesisValues, slot: u64) -> u64 {
    if era_is_byron(g, slot) { (g.byron_epoch_length / g.byron_slot_length) as u64 } else { (g.shelley_epoch_length / g.shelley_slot_length) as u64 }
}
fn slot_len(g: &GenesisValues, slot: u64) -> u64 {
    if era_is_byron(g, slot) { g.byron_slot_length as u64 } else { g.shelley_slot_length as u64 }
}
fn era(g: &GenesisValues, slot: u64) -> &'static str { if era_is_byron(g, slot) { "byron" } else { "shelley" } }

pub fn run_case(case: &Case, out: &mut Out) {
    let mut g = GenesisValues::default();
    let mut net: Option<String> = Some("mainnet".into());
    let (mut saw_byron, mut saw_shelley, mut saw_pair) = (false, false, false);
    for op in &case.ops {
        let num = |i: usize| -> u64 { op.get(i).and_then(|s| s.parse::<u64>().ok()).unwrap_or(0) };
        match op[0].as_str() {
            "net" => match by_name(&op[1]) {
                Some(x) => { g = x; net = Some(op[1].clone()); out.cov(format!("net:{}", op[1])); out.ok(show_g(&g)); }
                None => out.reply("bad-op".into()),
            },
            "custom" => {
                if op.len() != 9 || (1..9).any(|i| op[i].parse::<u64>().is_err()) || [1, 2, 5, 6].iter().any(|&i| num(i) > u32::MAX as u64) {
                    out.reply("bad-op".into());
                } else {
                    g = GenesisValues { magic: 0, network_id: 0, byron_epoch_length: num(1) as u32, byron_slot_length: num(2) as u32,
                        byron_known_slot: num(3), byron_known_hash: String::new(), byron_known_time: num(4), shelley_epoch_length: num(5) as u32,
                        shelley_slot_length: num(6) as u32, shelley_known_slot: num(7), shelley_known_hash: String::new(), shelley_known_time: num(8) };
                    net = None;
                    out.cov("net:custom");
                    out.ok(show_g(&g));
                }
            }
            "start" => match guard(|| g.shelley_start_epoch()) { Some(e) => out.ok(e.to_string()), None => out.panic() },
            "rel" => match guard(|| g.absolute_slot_to_relative(num(1))) { Some((e, r)) => out.ok(format!("{e} {r}")), None => { out.cov("panic"); out.panic() } },
            "abs" => match guard(|| g.relative_slot_to_absolute(num(1), num(2))) { Some(s) => out.ok(s.to_string()), None => { out.cov("panic"); out.panic() } },
            "wall" => match guard(|| g.slot_to_wallclock(num(1))) { Some(t) => out.ok(t.to_string()), None => { out.cov("panic"); out.panic() } },
            "rt" => {
                let slot = num(1);
                let rel = guard(|| g.absolute_slot_to_relative(slot));
                let back = rel.and_then(|(e, r)| guard(|| g.relative_slot_to_absolute(e, r)));
                // ---- property oracle
                if let (Some(n), true) = (&net, slot < BOUND) {
                    let size = epoch_size(&g, slot);
                    let byron = era_is_byron(&g, slot);
                    if byron { saw_byron = true } else { saw_shelley = true }
                    out.cov(format!("era:{}", era(&g, slot)));
                    if slot % size <= 1 || slot % size == size - 1 { out.cov("epoch-boundary"); }
                    match (rel, back) {
                        (None, _) => out.viol(format!("rel-panic net={n} era={}", era(&g, slot)), format!("absolute_slot_to_relative({slot}) panicked")),
                        (Some((e, r)), back) => {
                            let in_range = r < size;
                            let rt_ok = back == Some(slot);
                            if !in_range || !rt_ok {
                                // signature of the recorded defect: right epoch, remainder taken modulo the epoch length in seconds
                                let known = byron && slot >= size && e == slot / size && r == slot % (g.byron_epoch_length as u64);
                                let detail = format!("slot {slot} -> (epoch {e}, slot-in-epoch {r}) -> {}; epoch size in slots = {size}",
                                    back.map(|b| b.to_string()).unwrap_or("panic".into()));
                                if known { out.viol(format!("byron-remainder net={n}"), detail); }
                                else if !in_range { out.viol(format!("rel-range net={n} era={}", era(&g, slot)), detail); }
                                else { out.viol(format!("roundtrip net={n} era={}", era(&g, slot)), detail); }
                            }
                        }
                    }
                }
                match (rel, back) {
                    (None, _) => { out.cov("panic"); out.panic() }
                    (Some((e, r)), None) => out.ok(format!("{e} {r} panic")),
                    (Some((e, r)), Some(b)) => out.ok(format!("{e} {r} {b}")),
                }
            }
            "pair" => {
                let (s, t) = (num(1), num(2));
                let a = guard(|| g.slot_to_wallclock(s));
                let b = guard(|| g.slot_to_wallclock(t));
                if let (Some(n), true) = (&net, s < t && t <= BOUND && s < BOUND) {
                    saw_pair = true;
                    if era_is_byron(&g, s) { saw_byron = true } else { saw_shelley = true }
                    if era_is_byron(&g, t) { saw_byron = true } else { saw_shelley = true }
                    let straddles = era_is_byron(&g, s) && !era_is_byron(&g, t);
                    if straddles { out.cov("era-boundary-pair"); }
                    match (a, b) {
                        (Some(a), Some(b)) => {
                            let step_bad = t == s + 1 && b.wrapping_sub(a) != slot_len(&g, s);
                            let mono_bad = !(a < b);
                            if step_bad || mono_bad {
                                // signature of the recorded defect: legacy testnet, pair straddles the era boundary, and the
                                // discrepancy is exactly the 10800 s offset between the two pinned origin times
                                let sks = g.shelley_known_slot;
                                let expect = (sks - s.min(sks)) * g.byron_slot_length as u64 + (t - sks.min(t)) * g.shelley_slot_length as u64;
                                let known = n == "testnet" && straddles && a.wrapping_add(expect) == b.wrapping_add(10800);
                                let detail = format!("wallclock({s}) = {a}, wallclock({t}) = {b}; slot length at {s} = {}", slot_len(&g, s));
                                if known { out.viol("testnet-boundary-clock", detail); }
                                else if step_bad { out.viol(format!("clock-step net={n} era={}", era(&g, s)), detail); }
                                else { out.viol(format!("clock-mono net={n}"), detail); }
                            }
                        }
                        _ => out.viol(format!("clock-panic net={n}"), format!("slot_to_wallclock panicked on {s} or {t}")),
                    }
                }
                match (a, b) { (Some(a), Some(b)) => out.ok(format!("{a} {b}")), _ => { out.cov("panic"); out.panic() } }
            }
            "magic" => out.ok(match GenesisValues::from_magic(num(1)) {
                None => "none".to_string(),
                Some(x) => NETS.iter().find(|n| { let y = by_name(n).unwrap(); show_g(&y) == show_g(&x) && y.magic == x.magic && y.magic == num(1) })
                    .map(|s| s.to_string()).unwrap_or("other".into()),
            }),
            _ => out.reply("bad-op".into()),
        }
    }
    if saw_byron && saw_shelley && saw_pair { out.nontrivial(); }
}
