//! stream `artfuzz` — C09 (ledger half): structure-aware mutations (bit flips, truncations, splices,
//! length-field corruption, …) of every block / transaction / header artefact of `test_data` and of
//! the headers, transactions, outputs and addresses contained in them, through the public decode
//! entry points under `catch_unwind`. This is search, not proof: the Lean side only states the
//! claimed outcome class ("returns": value or error, never a panic) for every op.
//!
//!   mut block <id> <edit>*                 MultiEraBlock::decode + probe::block_era
//!   mut tx <id> <edit>*                    MultiEraTx::decode + decode_for_era (all eras)
//!   mut hdr <id> <tag> <subtag|-> <edit>*  MultiEraHeader::decode
//!   mut out <id> <era> <edit>*             MultiEraOutput::decode
//!   mut addr <id> <edit>*                  Address::from_bytes (+ ByronAddress::decode)
//!   mut addrstr <id> <edit>*               Address::from_bech32 / Address::from_str / ByronAddress::from_base58 on the (lossy UTF-8) text
//!   mut val <id> <type> <edit>*            minicbor::decode of a hand-written node-to-client payload decoder
//!                                          (local-state query results, local-tx-submission reject reasons)
//! `<id>` = `<file>` | `<file>#hdr` | `<file>#tx<i>` | `<file>[#tx<i>]#out<j>` | `…#addr<j>` | `lit:<hex>` |
//! `rej#<n>` (n-th hex literal of the reject-reason tests in localtxsubmission/codec.rs);
//! `<edit>` = `r <pos> <len> <hex|->`.
use crate::fw::*;
#[path = "../fixtures/mutate.rs"]
mod mutate;
use pallas_addresses::Address;
use pallas_traverse::{Era, MultiEraBlock, MultiEraHeader, MultiEraOutput, MultiEraTx, probe};
use pallas_codec::minicbor;
use pallas_network::miniprotocols::localstate::queries_v16 as q16;
use pallas_network::miniprotocols::localtxsubmission as ltx;
use std::cell::RefCell;
use std::collections::HashMap;

pub const NAME: &str = "artfuzz";

fn repo() -> String { std::env::var("PV_REPO").unwrap_or_else(|_| "/repo".into()) }

fn load_file(name: &str) -> Option<Vec<u8>> {
    if name.contains('/') || name.contains("..") { return None; }
    let text = std::fs::read_to_string(format!("{}/test_data/{}", repo(), name)).ok()?;
    hex::decode(text.trim()).ok()
}

const ERAS: [Era; 7] = [Era::Byron, Era::Shelley, Era::Allegra, Era::Mary, Era::Alonzo, Era::Babbage, Era::Conway];
fn era_name(e: Era) -> &'static str {
    match e { Era::Byron => "byron", Era::Shelley => "shelley", Era::Allegra => "allegra", Era::Mary => "mary", Era::Alonzo => "alonzo", Era::Babbage => "babbage", Era::Conway => "conway", _ => "other" }
}
fn era_of(s: &str) -> Option<Era> { ERAS.iter().copied().find(|e| era_name(*e) == s) }
fn header_tag(e: Era) -> u8 { match e { Era::Byron => 0, Era::Shelley => 1, Era::Allegra => 2, Era::Mary => 3, Era::Alonzo => 4, Era::Babbage => 5, _ => 6 } }

thread_local! { static CACHE: RefCell<HashMap<String, Option<Vec<u8>>>> = RefCell::new(HashMap::new()); }

/// bytes of an artefact id (derived ones are cut out of the decoded parent)
fn artifact(id: &str) -> Option<Vec<u8>> {
    if let Some(h) = id.strip_prefix("lit:") { return unhex(h); }
    if let Some(hit) = CACHE.with(|c| c.borrow().get(id).cloned()) { return hit; }
    let res = guard(|| derive(id)).flatten();
    CACHE.with(|c| c.borrow_mut().insert(id.to_string(), res.clone()));
    res
}
fn reject_corpus() -> Vec<Vec<u8>> {
    let Ok(src) = std::fs::read_to_string(format!("{}/pallas-network/src/miniprotocols/localtxsubmission/codec.rs", repo())) else { return vec![] };
    let mut res = vec![];
    for piece in src.split('"') {
        if piece.len() >= 16 && piece.len() % 2 == 0 && piece.bytes().all(|c| c.is_ascii_hexdigit()) {
            if let Ok(b) = hex::decode(piece) { res.push(b); }
        }
    }
    res
}
thread_local! { static REJ: RefCell<Option<Vec<Vec<u8>>>> = RefCell::new(None); }
fn reject(n: usize) -> Option<Vec<u8>> {
    REJ.with(|c| { let mut c = c.borrow_mut(); if c.is_none() { *c = Some(reject_corpus()); } c.as_ref().unwrap().get(n).cloned() })
}
fn reject_count() -> usize { REJ.with(|c| { let mut c = c.borrow_mut(); if c.is_none() { *c = Some(reject_corpus()); } c.as_ref().unwrap().len() }) }

pub const VAL_TYPES: [&str; 28] = ["KeepRawPlutusData", "PlutusDataP", "BabbageDatumOption", "ConwayTxOut", "TxValidationError", "ApplyTxError", "ConwayLedgerFailure", "ShelleyPoolPredFailure", "Voter", "VotingProcedure", "Certificate",
    "ConwayTxCert", "NativeScript", "Utxo", "DRep", "CommitteeAuthorization", "FuturePParams", "GovAction", "NextEpochChange", "HotCredAuthStatus", "Value",
    "TransactionOutput", "RationalNumber", "CostModels", "PlutusData", "BigInt", "DatumOption", "SMaybeU64"];

fn decode_val(ty: &str, bs: &[u8]) -> Option<bool> {
    fn d<T: for<'b> minicbor::Decode<'b, ()>>(bs: &[u8]) -> Option<bool> { Some(minicbor::decode::<T>(bs).is_ok()) }
    match ty {
        "KeepRawPlutusData" => Some(minicbor::decode::<pallas_codec::utils::KeepRaw<pallas_primitives::PlutusData>>(bs).is_ok()),
        "PlutusDataP" => d::<pallas_primitives::PlutusData>(bs),
        "BabbageDatumOption" => Some(minicbor::decode::<pallas_primitives::babbage::DatumOption>(bs).is_ok()),
        "ConwayTxOut" => Some(minicbor::decode::<pallas_primitives::conway::TransactionOutput>(bs).is_ok()),
        "TxValidationError" => d::<ltx::TxValidationError>(bs),
        "ApplyTxError" => d::<ltx::ApplyTxError>(bs),
        "ConwayLedgerFailure" => d::<ltx::ConwayLedgerFailure>(bs),
        "ShelleyPoolPredFailure" => d::<ltx::ShelleyPoolPredFailure>(bs),
        "Voter" => d::<ltx::primitives::Voter>(bs),
        "VotingProcedure" => d::<ltx::VotingProcedure>(bs),
        "Certificate" => d::<ltx::primitives::Certificate>(bs),
        "ConwayTxCert" => d::<ltx::ConwayTxCert>(bs),
        "NativeScript" => d::<ltx::primitives::NativeScript>(bs),
        "Utxo" => d::<ltx::Utxo>(bs),
        "SMaybeU64" => d::<ltx::SMaybe<u64>>(bs),
        "DRep" => d::<q16::DRep>(bs),
        "CommitteeAuthorization" => d::<q16::CommitteeAuthorization>(bs),
        "FuturePParams" => d::<q16::FuturePParams>(bs),
        "GovAction" => d::<q16::GovAction>(bs),
        "NextEpochChange" => d::<q16::NextEpochChange>(bs),
        "HotCredAuthStatus" => d::<q16::HotCredAuthStatus>(bs),
        "Value" => d::<q16::Value>(bs),
        "TransactionOutput" => d::<q16::TransactionOutput>(bs),
        "RationalNumber" => d::<q16::RationalNumber>(bs),
        "CostModels" => d::<q16::CostModels>(bs),
        "PlutusData" => d::<q16::PlutusData>(bs),
        "BigInt" => d::<q16::BigInt>(bs),
        "DatumOption" => d::<q16::DatumOption>(bs),
        _ => None,
    }
}

fn derive(id: &str) -> Option<Vec<u8>> {
    if let Some(n) = id.strip_prefix("rej#") { return reject(n.parse().ok()?); }
    let mut parts = id.split('#');
    let file = parts.next()?;
    let mut cur = load_file(file)?;
    let mut is_block = file.ends_with(".block");
    for p in parts {
        if p == "hdr" {
            let b = MultiEraBlock::decode(&cur).ok()?;
            let h = b.header().cbor().to_vec();
            cur = h;
            is_block = false;
        } else if let Some(i) = p.strip_prefix("tx") {
            let b = MultiEraBlock::decode(&cur).ok()?;
            let t = b.txs().get(i.parse::<usize>().ok()?)?.encode();
            cur = t;
            is_block = false;
        } else if let Some(j) = p.strip_prefix("out") {
            if is_block { return None; }
            let t = MultiEraTx::decode(&cur).ok()?;
            let o = t.outputs().get(j.parse::<usize>().ok()?)?.encode();
            cur = o;
        } else if let Some(j) = p.strip_prefix("addr") {
            if is_block { return None; }
            let t = MultiEraTx::decode(&cur).ok()?;
            let a = t.outputs().get(j.parse::<usize>().ok()?)?.address().ok()?.to_vec();
            cur = a;
        } else { return None; }
    }
    Some(cur)
}

struct Target { kind: &'static str, id: String, extra: String }

fn targets() -> Vec<Target> {
    let mut files: Vec<String> = std::fs::read_dir(format!("{}/test_data", repo())).map(|d| d.filter_map(|e| e.ok()).filter_map(|e| e.file_name().into_string().ok()).collect()).unwrap_or_default();
    files.sort();
    let mut ts = vec![];
    let mut add_tx_children = |ts: &mut Vec<Target>, txid: &str| {
        let Some(bytes) = artifact(txid) else { return };
        let Some(Ok(tx)) = guard(|| MultiEraTx::decode(&bytes).map(|t| (t.era(), t.outputs().len()))) else { return };
        for j in 0..tx.1.min(2) {
            ts.push(Target { kind: "out", id: format!("{txid}#out{j}"), extra: era_name(tx.0).to_string() });
            ts.push(Target { kind: "addr", id: format!("{txid}#addr{j}"), extra: String::new() });
        }
    };
    for f in &files {
        if f.ends_with(".block") {
            let Some(bytes) = artifact(f) else { continue };
            ts.push(Target { kind: "block", id: f.clone(), extra: String::new() });
            let Some(Ok((era, ntx, ebb))) = guard(|| MultiEraBlock::decode(&bytes).map(|b| (b.era(), b.txs().len(), matches!(b, MultiEraBlock::EpochBoundary(_))))) else { continue };
            let sub = if era == Era::Byron { if ebb { "0" } else { "1" } } else { "-" };
            ts.push(Target { kind: "hdr", id: format!("{f}#hdr"), extra: format!("{} {}", header_tag(era), sub) });
            if bytes.len() < 200_000 {
                for i in 0..ntx.min(2) {
                    let txid = format!("{f}#tx{i}");
                    ts.push(Target { kind: "tx", id: txid.clone(), extra: String::new() });
                    add_tx_children(&mut ts, &txid);
                }
            }
        } else if f.ends_with(".tx") {
            if artifact(f).is_none() { continue; }
            ts.push(Target { kind: "tx", id: f.clone(), extra: String::new() });
            add_tx_children(&mut ts, f);
        } else if f.ends_with(".header") {
            if artifact(f).is_none() { continue; }
            // wire-format headers of the repo: tried under the tags of every header family
            for (tag, sub) in [(0, "0"), (0, "1"), (1, "-"), (5, "-")] { ts.push(Target { kind: "hdr", id: f.clone(), extra: format!("{tag} {sub}") }); }
        }
    }
    // address test vectors of pallas-addresses (Shelley types 0-7, stake 14/15, Byron)
    for a in ["019493315cd92eb5d8c4304e67b7e16ae36d61d34502694657811a2c8e337b62cfff6403a06a3acbc34f8c46003c69fe79a3628cefa9c47251",
              "e1337b62cfff6403a06a3acbc34f8c46003c69fe79a3628cefa9c47251",
              "419493315cd92eb5d8c4304e67b7e16ae36d61d34502694657811a2c8e8198bd431b03",
              "82d818582183581cba970ad36654d8dd8f74274b733452ddeab9a62a397746be3c42ccdda0001a9026da5b",
              "82d818584283581cd2348b8ef7b8a6d1c922efa499c669b151eeef99e4ce3521e88223f8a101581e581cf281e648a89015a9861bd9e992414d1145ddaf80690be53235b0e2e5001a199983ba"] {
        ts.push(Target { kind: "addr", id: format!("lit:{a}"), extra: String::new() });
    }
    // textual addresses (bech32 / base58 test vectors of pallas-addresses)
    for a in ["addr1qx2fxv2umyhttkxyxp8x0dlpdt3k6cwng5pxj3jhsydzer3n0d3vllmyqwsx5wktcd8cc3sq835lu7drv2xwl2wywfgse35a3x",
              "addr1gx2fxv2umyhttkxyxp8x0dlpdt3k6cwng5pxj3jhsydzer5pnz75xxcrzqf96k",
              "stake1uyehkck0lajq8gr28t9uxnuvgcqrc6070x3k9r8048z8y5gh6ffgw",
              "37btjrVyb4KDXBNC4haBVPCrro8AQPHwvCMp3RFhhSVWwfFmZ6wwzSK6JK1hY6wHNmtrpTf1kdbva8TCneM2YsiXT7mrzT21EacHnPpz5YyUdj64na",
              "Ae2tdPwUPEZLs4HtbuNey7tK4hTKrwNwYtGqp7bDfCy2WdR3P6735W5Yfpe"] {
        ts.push(Target { kind: "addrstr", id: format!("lit:{}", hex(a.as_bytes())), extra: String::new() });
    }
    // synthesized carriers: post-Alonzo outputs with an inline datum (`[1, #6.24(bytes)]`) and a script ref,
    // so the witnesses of the datum decoders can be spliced into the inner buffer of a valid output
    for c in carriers() {
        ts.push(Target { kind: "out", id: format!("lit:{}", hex(&c)), extra: "babbage".into() });
        ts.push(Target { kind: "out", id: format!("lit:{}", hex(&c)), extra: "conway".into() });
    }
    // every decoder-branch witness on its own, under KeepRaw and inside a datum option
    for w in mutate::witnesses() {
        ts.push(Target { kind: "val", id: format!("lit:{}", hex(&w)), extra: "KeepRawPlutusData".into() });
        let mut d = vec![0x82, 0x01, 0xd8, 0x18];
        d.extend_from_slice(&mutate::enc_head(2, w.len() as u64, if w.len() < 24 { 0 } else { 1 }));
        d.extend_from_slice(&w);
        ts.push(Target { kind: "val", id: format!("lit:{}", hex(&d)), extra: "BabbageDatumOption".into() });
    }
    // node-to-client payload decoders: the reject reasons recorded in the repo's own tests …
    let nrej = reject_count();
    for n in 0..nrej {
        ts.push(Target { kind: "val", id: format!("rej#{n}"), extra: "TxValidationError".into() });
    }
    // … and small label-dispatched seeds for every hand-written decoder (`[label, null…]`)
    for ty in VAL_TYPES {
        for (label, arity) in [(0u8, 1u8), (0, 2), (1, 2), (2, 1), (3, 3), (6, 1), (9, 1), (23, 2)] {
            let mut b = vec![0x80 | arity, label];
            for _ in 1..arity { b.push(0xf6); }
            ts.push(Target { kind: "val", id: format!("lit:{}", hex(&b)), extra: ty.to_string() });
        }
    }
    ts
}

fn carriers() -> Vec<Vec<u8>> {
    let addr: Vec<u8> = std::iter::once(0x61u8).chain(std::iter::repeat(0xaa).take(28)).collect();
    let mut base = vec![0x00, 0x58, 0x1d];
    base.extend_from_slice(&addr);
    base.extend_from_slice(&[0x01, 0x1a, 0x00, 0x0f, 0x42, 0x40]);
    let datum = [0x02u8, 0x82, 0x01, 0xd8, 0x18, 0x45, 0xd8, 0x79, 0x9f, 0x01, 0xff];
    let script = [0x03u8, 0xd8, 0x18, 0x45, 0x82, 0x01, 0x43, 0x01, 0x02, 0x03];
    let mut a = vec![0xa3]; a.extend_from_slice(&base); a.extend_from_slice(&datum);
    let mut b = vec![0xa4]; b.extend_from_slice(&base); b.extend_from_slice(&datum); b.extend_from_slice(&script);
    let mut c = vec![0xbf]; c.extend_from_slice(&base); c.extend_from_slice(&datum); c.push(0xff);
    vec![a, b, c]
}

fn prefix_of(t: &Target) -> String { if t.extra.is_empty() { format!("mut {} {}", t.kind, t.id) } else { format!("mut {} {} {}", t.kind, t.id, t.extra) } }

/// every decoder-branch witness spliced over the root of every wrapped payload (inline datum, script
/// ref, …) of the carriers, with the enclosing lengths repaired: the carrier stays a valid output / tx
fn splice_cases(g: &mut Gen, ts: &[Target]) {
    let wit = mutate::witnesses();
    let mut real = 0;
    // post-Alonzo artefacts first: they are the ones that carry inline datums and script refs
    let mut order: Vec<&Target> = ts.iter().filter(|t| t.id.contains("conway") || t.id.contains("babbage")).collect();
    order.extend(ts.iter().filter(|t| !(t.id.contains("conway") || t.id.contains("babbage"))));
    for t in order {
        if !(t.kind == "out" || t.kind == "tx") { continue; }
        let synth = t.id.starts_with("lit:");
        if !synth && real >= if g.thorough() { 60 } else { 10 } { continue; }
        let Some(base) = artifact(&t.id) else { continue };
        if base.len() > 20_000 { continue; }
        let tree = mutate::tree(&base);
        // roots of `#6.24(bytes)` payloads (inline datums, script refs, wrapped headers); a byte string that
        // merely happens to parse as CBOR only counts for the synthesized carriers
        let tagged = |n: &&mutate::Node| n.wrap_root && n.wraps.last().map(|w| w.head_pos >= 2 && base[w.head_pos - 2] == 0xd8 && base[w.head_pos - 1] == 0x18).unwrap_or(false);
        let roots: Vec<&mutate::Node> = tree.iter().filter(tagged).collect();
        if roots.is_empty() { continue; }
        if !synth { real += 1; }
        let mut ops = vec![];
        for n in roots.iter().take(3) {
            for w in &wit {
                let edits = mutate::nested_edit(&n.wraps, n.start, n.end - n.start, w.clone());
                ops.push(format!("{} {}", prefix_of(t), edits.iter().map(mutate::show).collect::<Vec<_>>().join(" ")));
            }
        }
        for chunk in ops.chunks(24) { g.case(chunk.to_vec()); }
    }
}

pub fn generate(g: &mut Gen) {
    let ts = targets();
    if ts.is_empty() { g.case(vec!["mut block missing.block".to_string()]); return; }
    splice_cases(g, &ts);
    let wit = mutate::witnesses();
    // small artefacts (addresses, outputs, headers, txs) are cheap: they get most of the cases
    for i in 0..g.cases {
        // one case in sixteen: random bytes (no artefact at all) through a random entry point
        if i >= ts.len() && i % 16 == 0 {
            let kinds = ["block", "tx", "hdr 0 1", "hdr 5 -", "out babbage", "out byron", "addr", "addrstr", "val TxValidationError", "val GovAction"];
            let mut ops = vec![];
            for _ in 0..6 {
                let k = g.rng.below(40) as usize;
                let b = g.rng.bytes(k);
                let kind = kinds[g.rng.below(kinds.len() as u64) as usize];
                let (k0, extra) = kind.split_once(' ').map(|(a, b)| (a, format!(" {b}"))).unwrap_or((kind, String::new()));
                ops.push(format!("mut {} lit:{}{}", k0, hex(&b), extra));
            }
            g.case(ops);
            continue;
        }
        let t = &ts[if i < ts.len() { i } else { g.rng.below(ts.len() as u64) as usize }];
        let Some(base) = artifact(&t.id) else { continue };
        let prefix = prefix_of(t);
        let mut ops = vec![prefix.clone()];
        let n_mut = if base.len() > 100_000 { 2 } else if g.thorough() { 10 } else { 6 };
        let hs = mutate::heads(&base);
        let tr = if base.len() <= 300_000 { mutate::tree(&base) } else { vec![] };
        for j in 0..n_mut {
            let mut cur = base.clone();
            let mut line = prefix.clone();
            // every other mutant starts with a structure-aware edit (break / boundary / def<->indef / witness splice)
            if j % 2 == 1 && !tr.is_empty() {
                let es = mutate::gen_struct_edits(&mut g.rng, &base, &tr, &wit);
                for e in &es { mutate::apply(&mut cur, e); line.push(' '); line.push_str(&mutate::show(e)); }
                if !es.is_empty() && j % 4 == 1 { ops.push(line); continue; }
            }
            for _ in 0..(1 + j % 3) {
                let hs2;
                let hsr = if cur.len() == base.len() { &hs } else { hs2 = mutate::heads(&cur); &hs2 };
                let e = mutate::gen_edit(&mut g.rng, &cur, hsr);
                mutate::apply(&mut cur, &e);
                line.push(' ');
                line.push_str(&mutate::show(&e));
            }
            ops.push(line);
        }
        g.case(ops);
    }
}

/// true = Ok, false = Err (for the distribution only)
fn decode(kind: &str, args: &[String], bytes: &[u8]) -> Option<bool> {
    match kind {
        "block" => {
            let _ = probe::block_era(bytes);
            Some(MultiEraBlock::decode(bytes).is_ok())
        }
        "tx" => {
            for e in ERAS { let _ = MultiEraTx::decode_for_era(e, bytes); }
            Some(MultiEraTx::decode(bytes).is_ok())
        }
        "hdr" => {
            let tag: u8 = args.first()?.parse().ok()?;
            let sub: Option<u8> = match args.get(1)?.as_str() { "-" => None, s => Some(s.parse().ok()?) };
            Some(MultiEraHeader::decode(tag, sub, bytes).is_ok())
        }
        "out" => {
            let era = era_of(args.first()?)?;
            for e in ERAS { let _ = MultiEraOutput::decode(e, bytes); }
            Some(MultiEraOutput::decode(era, bytes).is_ok())
        }
        "val" => decode_val(args.first()?, bytes),
        "addrstr" => {
            let text = String::from_utf8_lossy(bytes).to_string();
            let a = Address::from_bech32(&text).is_ok();
            let b = text.parse::<Address>().is_ok();
            let c = pallas_addresses::ByronAddress::from_base58(&text).map(|x| x.decode().is_ok()).unwrap_or(false);
            Some(a || b || c)
        }
        "addr" => Some(match Address::from_bytes(bytes) {
            Ok(Address::Byron(b)) => { let _ = b.decode(); true }
            Ok(_) => true,
            Err(_) => false,
        }),
        _ => None,
    }
}

pub fn run_case(case: &Case, out: &mut Out) {
    let (mut oks, mut errs) = (0, 0);
    for op in &case.ops {
        if op.len() < 3 || op[0] != "mut" { out.reply("bad-op".into()); continue; }
        let kind = op[1].as_str();
        let nargs = match kind { "hdr" => 2, "out" | "val" => 1, "block" | "tx" | "addr" | "addrstr" => 0, _ => { out.reply("bad-op".into()); continue } };
        if op.len() < 3 + nargs { out.reply("bad-op".into()); continue; }
        let (Some(mut bytes), Some(edits)) = (artifact(&op[2]), mutate::parse(&op[3 + nargs..])) else { out.reply("bad-op".into()); continue };
        for e in &edits { mutate::apply(&mut bytes, e); }
        let args = op[3..3 + nargs].to_vec();
        match guard(|| decode(kind, &args, &bytes)) {
            None => {
                let class = if kind == "val" { args[0].clone() } else if op[2].starts_with("lit:") { "lit".to_string() } else { op[2].split(|c| c == '.' || c == '#').next().unwrap_or("").trim_end_matches(char::is_numeric).to_string() };
                out.viol(format!("panic decode {kind} {class}"), format!("{} -> {} bytes {}", op.join(" "), bytes.len(), if bytes.len() <= 256 { hex(&bytes) } else { format!("{}…", hex(&bytes[..64])) }));
                out.panic();
            }
            Some(None) => out.reply("bad-op".into()),
            Some(Some(ok)) => {
                if ok { oks += 1 } else { errs += 1 }
                out.cov(format!("{}:{}{}", kind, if ok { "ok" } else { "err" }, if edits.is_empty() { ":unmutated" } else { "" }));
                out.reply("returns".into());
            }
        }
    }
    if oks > 0 && errs > 0 { out.nontrivial(); }
}
