//! stream `kes` — C12: KES keys sign verifiably for exactly their current period (sum and compact sum,
//! depths 1..7). Implementation and oracle in fixtures/kes_common.rs (`Mode::Sign`).
use crate::fw::*;
#[path = "../fixtures/kes_common.rs"]
mod kes_common;
pub const NAME: &str = "kes";
pub fn generate(g: &mut Gen) { kes_common::generate(g, kes_common::Mode::Sign) }
pub fn run_case(case: &Case, out: &mut Out) { kes_common::run_case(case, out, kes_common::Mode::Sign) }
