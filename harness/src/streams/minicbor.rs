//! stream `minicbor` — the real minicbor 0.26 `Decoder` (through `pallas_codec::minicbor`) against
//! `Model/Minicbor.lean`: one primitive call per op on a decoder installed by `buf <hex>`.
use crate::fw::*;
use pallas_codec::minicbor::{self, Decoder, bytes::ByteVec, data::Type, decode::Error};

pub const NAME: &str = "minicbor";

pub fn err_class(e: &Error) -> &'static str {
    if e.is_end_of_input() { return "eoi"; }
    if e.is_type_mismatch() { return "type"; }
    if e.is_message() { return "msg"; }
    if e.is_tag_mismatch() { return "tag"; }
    if e.is_unknown_variant() { return "variant"; }
    if e.is_missing_value() { return "missing"; }
    // no public predicate for these two; `Display` starts with a fixed phrase per variant
    let s = format!("{e}");
    if s.contains("overflows target type") { return "overflow"; }
    if s.starts_with("invalid utf-8") { return "utf8"; }
    "other"
}

pub fn show_type(t: Type) -> String {
    match t {
        Type::Bool => "bool".into(), Type::Null => "null".into(), Type::Undefined => "undefined".into(),
        Type::U8 => "u8".into(), Type::U16 => "u16".into(), Type::U32 => "u32".into(), Type::U64 => "u64".into(),
        Type::I8 => "i8".into(), Type::I16 => "i16".into(), Type::I32 => "i32".into(), Type::I64 => "i64".into(),
        Type::Int => "int".into(), Type::F16 => "f16".into(), Type::F32 => "f32".into(), Type::F64 => "f64".into(),
        Type::Simple => "simple".into(), Type::Bytes => "bytes".into(), Type::BytesIndef => "bytes-indef".into(),
        Type::String => "string".into(), Type::StringIndef => "string-indef".into(), Type::Array => "array".into(),
        Type::ArrayIndef => "array-indef".into(), Type::Map => "map".into(), Type::MapIndef => "map-indef".into(),
        Type::Tag => "tag".into(), Type::Break => "break".into(), Type::Unknown(n) => format!("unknown:{n}"),
    }
}

fn show_opt(o: Option<u64>) -> String { match o { Some(n) => format!("some {n}"), None => "none".into() } }
fn show_list<T>(xs: &[T], f: impl Fn(&T) -> String) -> String {
    format!("[{}]", xs.iter().map(f).collect::<Vec<_>>().join(" "))
}

const PRIMS: [&str; 32] = ["position", "datatype", "probe_skip", "u8", "u16", "u32", "u64", "i8", "i16", "i32", "i64",
    "int", "bool", "null", "undefined", "simple", "bytes", "bytes_iter", "str", "str_iter", "array", "map", "tag", "skip",
    "vec_u64", "vec_int", "vec_vec_u8", "opt_u64", "opt_bytes", "pair_u64", "map_u64_bytes", "skip"];

/// well-formed CBOR item generator that exercises every head width and the indefinite forms
pub fn gen_item(rng: &mut Rng, depth: u32, out: &mut Vec<u8>) {
    fn head(rng: &mut Rng, major: u8, n: u64, out: &mut Vec<u8>) {
        // minimal width or (1 in 4) any wider one
        let min_w = if n < 24 { 0 } else if n < 256 { 1 } else if n < 65536 { 2 } else if n < (1 << 32) { 4 } else { 8 };
        let widths = [0u8, 1, 2, 4, 8];
        let mut w = min_w;
        if rng.chance(1, 4) {
            let cands: Vec<u8> = widths.iter().cloned().filter(|x| *x >= min_w).collect();
            w = *rng.pick(&cands);
        }
        match w {
            0 => out.push(major << 5 | n as u8),
            1 => { out.push(major << 5 | 24); out.push(n as u8); }
            2 => { out.push(major << 5 | 25); out.extend_from_slice(&(n as u16).to_be_bytes()); }
            4 => { out.push(major << 5 | 26); out.extend_from_slice(&(n as u32).to_be_bytes()); }
            _ => { out.push(major << 5 | 27); out.extend_from_slice(&n.to_be_bytes()); }
        }
    }
    let leaf = depth == 0 || rng.chance(1, 3);
    let k = if leaf { rng.below(6) } else { 6 + rng.below(5) };
    match k {
        0 => { let n = rng.u64_edgy(); head(rng, 0, n, out) }
        1 => { let n = rng.u64_edgy(); head(rng, 1, n, out) }
        2 => {
            let len = *rng.pick(&[0u64, 1, 2, 5, 23, 24, 30]);
            if rng.chance(1, 4) {
                out.push(0x5f);
                for _ in 0..rng.below(3) { let l = rng.below(4); head(rng, 2, l, out); out.extend(rng.bytes(l as usize)); }
                out.push(0xff);
            } else { head(rng, 2, len, out); out.extend(rng.bytes(len as usize)); }
        }
        3 => {
            let texts: [&[u8]; 6] = [b"", b"a", b"hello", "é".as_bytes(), "€x".as_bytes(), "😀".as_bytes()];
            if rng.chance(1, 4) {
                out.push(0x7f);
                for _ in 0..rng.below(3) { let t = *rng.pick(&texts); head(rng, 3, t.len() as u64, out); out.extend_from_slice(t); }
                out.push(0xff);
            } else if rng.chance(1, 8) {
                // invalid UTF-8 payloads (overlong, surrogate, truncated, > U+10FFFF)
                let bad: [&[u8]; 6] = [&[0xc0, 0x80], &[0xed, 0xa0, 0x80], &[0xe2, 0x82], &[0xf4, 0x90, 0x80, 0x80], &[0x80], &[0xe0, 0x9f, 0x80]];
                let t = *rng.pick(&bad); head(rng, 3, t.len() as u64, out); out.extend_from_slice(t);
            } else { let t = *rng.pick(&texts); head(rng, 3, t.len() as u64, out); out.extend_from_slice(t); }
        }
        4 => out.push(*rng.pick(&[0xf4u8, 0xf5, 0xf6, 0xf7, 0xe0, 0xf3])),
        5 => match rng.below(4) {
            0 => { out.push(0xf8); out.push(rng.next() as u8); }
            1 => { out.push(0xf9); out.extend(rng.bytes(2)); }
            2 => { out.push(0xfa); out.extend(rng.bytes(4)); }
            _ => { out.push(0xfb); out.extend(rng.bytes(8)); }
        },
        6 | 7 => {
            let n = rng.below(4);
            if rng.chance(1, 3) { out.push(0x9f); for _ in 0..n { gen_item(rng, depth - 1, out); } out.push(0xff); }
            else { head(rng, 4, n, out); for _ in 0..n { gen_item(rng, depth - 1, out); } }
        }
        8 | 9 => {
            let n = rng.below(3);
            if rng.chance(1, 3) { out.push(0xbf); for _ in 0..2 * n { gen_item(rng, depth - 1, out); } out.push(0xff); }
            else { head(rng, 5, n, out); for _ in 0..2 * n { gen_item(rng, depth - 1, out); } }
        }
        _ => { let t = *rng.pick(&[0u64, 2, 24, 30, 102, 121, 258, 1280, 1 << 40]); head(rng, 6, t, out); gen_item(rng, depth - 1, out); }
    }
}

/// typed shapes the composite ops accept
fn gen_typed(rng: &mut Rng, out: &mut Vec<u8>) -> &'static str {
    let mut uint = |rng: &mut Rng, out: &mut Vec<u8>| {
        let n = rng.u64_edgy();
        let mut v = vec![];
        let _ = minicbor::encode(n, &mut v);
        if rng.chance(1, 4) && n < 256 { v = vec![0x19, 0, n as u8]; }
        out.extend(v);
    };
    match rng.below(7) {
        0 => { let n = rng.below(5); if rng.chance(1, 3) { out.push(0x9f); for _ in 0..n { uint(rng, out); } out.push(0xff); } else { out.push(0x80 | n as u8); for _ in 0..n { uint(rng, out); } } "vec_u64" }
        1 => { if rng.chance(1, 2) { out.push(0xf6); } else if rng.chance(1, 4) { out.push(0xf7); } else { uint(rng, out); } "opt_u64" }
        2 => { out.push(*rng.pick(&[0x82u8, 0x82, 0x82, 0x83, 0x81, 0x9f, 0x98])); if *out.last().unwrap() == 0x98 { out.push(2); } uint(rng, out); uint(rng, out); "pair_u64" }
        3 => {
            let n = rng.below(4);
            let indef = rng.chance(1, 3);
            if indef { out.push(0xbf); } else { out.push(0xa0 | n as u8); }
            for _ in 0..n { uint(rng, out); let l = rng.below(5); out.push(0x40 | l as u8); out.extend(rng.bytes(l as usize)); }
            if indef { out.push(0xff); }
            "map_u64_bytes"
        }
        4 => { let n = rng.below(3); out.push(0x80 | n as u8); for _ in 0..n { let m = rng.below(3); out.push(0x80 | m as u8); for _ in 0..m { out.push(rng.below(24) as u8); } } "vec_vec_u8" }
        5 => { let n = rng.below(4); out.push(0x80 | n as u8); for _ in 0..n { let x = rng.u64_edgy(); out.push(if rng.chance(1, 2) { 0x1b } else { 0x3b }); out.extend_from_slice(&x.to_be_bytes()); } "vec_int" }
        _ => { if rng.chance(1, 3) { out.push(0xf6); } else { let l = rng.below(5); out.push(0x40 | l as u8); out.extend(rng.bytes(l as usize)); } "opt_bytes" }
    }
}

pub fn generate(g: &mut Gen) {
    let heads: Vec<u8> = vec![0x00, 0x17, 0x18, 0x19, 0x1a, 0x1b, 0x1c, 0x1f, 0x20, 0x37, 0x38, 0x39, 0x3a, 0x3b, 0x3c, 0x40, 0x57, 0x58,
        0x5b, 0x5c, 0x5f, 0x60, 0x78, 0x7f, 0x80, 0x98, 0x9b, 0x9f, 0xa0, 0xb8, 0xbf, 0xc0, 0xd8, 0xdb, 0xdc, 0xdf, 0xe0, 0xf3, 0xf4, 0xf5,
        0xf6, 0xf7, 0xf8, 0xf9, 0xfa, 0xfb, 0xfc, 0xff];
    if g.thorough() {
        // exhaustive small domain: every initial byte x every second byte (+ two fixed tails), the first-byte
        // dispatch of every primitive (one op per decoder, so nothing is masked by an earlier error)
        let prims = ["datatype", "u8", "u16", "u32", "u64", "i8", "i16", "i32", "i64", "int", "bool", "null", "undefined", "simple",
            "bytes", "bytes_iter", "str", "str_iter", "array", "map", "tag", "skip"];
        for b0 in 0..=255u32 {
            for (k, p) in prims.iter().enumerate() {
                let mut ops = vec![];
                for b1 in 0..=255u32 {
                    if (b1 as usize + k) % 4 != 0 && !(0x38..=0x3b).contains(&b0) { continue; }
                    ops.push(format!("buf {:02x}{:02x}{}", b0, b1, if b1 % 2 == 0 { "" } else { "0001" }));
                    ops.push(p.to_string());
                }
                g.case(ops);
            }
            g.case(vec![format!("buf {:02x}", b0), "datatype".into(), "skip".into()]);
        }
    }
    for i in 0..g.cases {
        let mut rng = g.rng.fork();
        let mut buf: Vec<u8> = vec![];
        let mut ops: Vec<String> = vec![];
        let mode = i % 8;
        match mode {
            // a well-formed item (all widths, indefinite forms, nesting), then generic primitives
            0 | 1 | 2 => {
                let n = 1 + rng.below(3);
                for _ in 0..n { gen_item(&mut rng, 3, &mut buf); }
                if mode == 2 && !buf.is_empty() { let cut = rng.below(buf.len() as u64) as usize; buf.truncate(cut); }
            }
            // every head byte × short tails (exhausts the first-byte dispatch, incl. the 0x38..0x3b peek quirk)
            3 => {
                buf.push(*rng.pick(&heads));
                let t = rng.below(10) as usize;
                for _ in 0..t { buf.push(if rng.chance(1, 3) { *rng.pick(&[0x00u8, 0x7f, 0x80, 0xff]) } else { rng.next() as u8 }); }
            }
            // typed shapes for the composite decoders
            4 | 5 => {
                let op = gen_typed(&mut rng, &mut buf);
                if mode == 5 && rng.chance(1, 3) && !buf.is_empty() { let cut = rng.below(buf.len() as u64) as usize; buf.truncate(cut); }
                ops.push(op.to_string());
            }
            // random bytes
            6 => { let n = rng.below(24) as usize; buf = rng.bytes(n); }
            // one mutated byte in a well-formed item
            _ => {
                gen_item(&mut rng, 3, &mut buf);
                if !buf.is_empty() { let k = rng.below(buf.len() as u64) as usize; buf[k] = if rng.chance(1, 2) { *rng.pick(&heads) } else { rng.next() as u8 }; }
            }
        }
        let mut lines = vec![format!("buf {}", hex(&buf))];
        if ops.is_empty() || rng.chance(1, 2) {
            if rng.chance(1, 2) { lines.push("datatype".into()); }
            if rng.chance(1, 3) { lines.push("probe_skip".into()); }
            if rng.chance(1, 2) { lines.push("skip".into()); }
            for _ in 0..1 + rng.below(4) { lines.push(rng.pick(&PRIMS).to_string()); }
        }
        let mut all = vec![lines[0].clone()];
        // composite op first when the buffer was generated for it
        if mode == 4 || mode == 5 { all.extend(ops.iter().cloned()); all.extend(lines[1..].iter().cloned()); }
        else { all.extend(lines[1..].iter().cloned()); }
        g.case(all);
    }
}

pub fn run_case(case: &Case, out: &mut Out) {
    let mut buf: Vec<u8> = vec![];
    let mut pos: Option<usize> = None; // None = no decoder / dead
    let mut oks = 0usize;
    let mut errs = 0usize;
    for op in &case.ops {
        if op[0] == "buf" {
            match unhex(&op[1]) { Some(b) => { buf = b; pos = Some(0); out.ok(buf.len().to_string()); } None => out.reply("bad-op".into()) }
            continue;
        }
        let Some(p) = pos else { out.err("dead"); continue; };
        let mut d = Decoder::new(&buf);
        d.set_position(p);
        macro_rules! run {
            ($e:expr, $sh:expr) => {{
                match guard_mut(|| $e) {
                    None => { out.panic(); pos = None; }
                    Some(Ok(v)) => { oks += 1; out.ok(format!("{} @{}", $sh(v), d.position())); pos = Some(d.position()); }
                    Some(Err(e)) => { errs += 1; out.cov(format!("err-{}", err_class(&e))); out.err(err_class(&e)); pos = None; }
                }
            }};
        }
        match op[0].as_str() {
            "position" => out.ok(d.position().to_string()),
            "datatype" => match d.datatype() {
                Ok(t) => out.ok(show_type(t)),
                Err(e) => { out.err(err_class(&e)); pos = None; }
            },
            "probe_skip" => {
                let mut pr = d.probe();
                match guard_mut(|| pr.skip()) {
                    None => out.panic(),
                    Some(Ok(())) => out.ok(pr.position().to_string()),
                    Some(Err(e)) => out.ok(format!("err-{}", err_class(&e))),
                }
            }
            "u8" => run!(d.u8(), |v: u8| v.to_string()),
            "u16" => run!(d.u16(), |v: u16| v.to_string()),
            "u32" => run!(d.u32(), |v: u32| v.to_string()),
            "u64" => run!(d.u64(), |v: u64| v.to_string()),
            "i8" => run!(d.i8(), |v: i8| v.to_string()),
            "i16" => run!(d.i16(), |v: i16| v.to_string()),
            "i32" => run!(d.i32(), |v: i32| v.to_string()),
            "i64" => run!(d.i64(), |v: i64| v.to_string()),
            "int" => run!(d.int(), |v: minicbor::data::Int| i128::from(v).to_string()),
            "bool" => run!(d.bool(), |v: bool| v.to_string()),
            "null" => run!(d.null(), |_| "null".to_string()),
            "undefined" => run!(d.undefined(), |_| "undefined".to_string()),
            "simple" => run!(d.simple(), |v: u8| v.to_string()),
            "bytes" => run!(d.bytes().map(|b| b.to_vec()), |v: Vec<u8>| hex(&v)),
            "bytes_iter" => run!(d.bytes_iter().and_then(|it| it.map(|c| c.map(|x| x.to_vec())).collect::<Result<Vec<_>, _>>()),
                |v: Vec<Vec<u8>>| show_list(&v, |c| hex(c))),
            "str" => run!(d.str().map(|s| s.as_bytes().to_vec()), |v: Vec<u8>| hex(&v)),
            "str_iter" => run!(d.str_iter().and_then(|it| it.map(|c| c.map(|x| x.as_bytes().to_vec())).collect::<Result<Vec<_>, _>>()),
                |v: Vec<Vec<u8>>| show_list(&v, |c| hex(c))),
            "array" => run!(d.array(), show_opt),
            "map" => run!(d.map(), show_opt),
            "tag" => run!(d.tag().map(|t| t.as_u64()), |v: u64| v.to_string()),
            "skip" => run!(d.skip(), |_| "skipped".to_string()),
            "vec_u64" => run!(d.decode::<Vec<u64>>(), |v: Vec<u64>| show_list(&v, |x| x.to_string())),
            "vec_int" => run!(d.decode::<Vec<minicbor::data::Int>>(), |v: Vec<minicbor::data::Int>| show_list(&v, |x| i128::from(*x).to_string())),
            "vec_vec_u8" => run!(d.decode::<Vec<Vec<u8>>>(), |v: Vec<Vec<u8>>| show_list(&v, |x| show_list(x, |y| y.to_string()))),
            "opt_u64" => run!(d.decode::<Option<u64>>(), show_opt),
            "opt_bytes" => run!(d.decode::<Option<ByteVec>>(), |v: Option<ByteVec>| match v { Some(b) => format!("some {}", hex(&b)), None => "none".into() }),
            "pair_u64" => run!(d.decode::<(u64, u64)>(), |v: (u64, u64)| format!("{} {}", v.0, v.1)),
            "map_u64_bytes" => run!(d.map_iter::<u64, ByteVec>().and_then(|it| it.collect::<Result<Vec<_>, _>>()),
                |v: Vec<(u64, ByteVec)>| show_list(&v, |p| format!("{}:{}", p.0, hex(&p.1)))),
            _ => out.reply("bad-op".into()),
        }
    }
    // non-trivial: at least one primitive accepted and at least one rejected within the case
    if oks > 0 && errs > 0 { out.nontrivial(); }
    if oks > 0 { out.cov("some-ok"); }
}
