//! stream `decimal` — C17: the real `pallas_math::math::FixedDecimal` operators, rounding family,
//! comparison and `Display` vs the Lean model. Oracle (independent of the Lean model AND of dashu):
//! exact integer / rational arithmetic with `num-bigint` on the value `data / 10^precision`.
use crate::fw::*;
use dashu_base::Abs;
use num_bigint::BigInt;
use num_integer::Integer;
use num_traits::{One, Signed, Zero};
use pallas_math::math::{FixedDecimal, FixedPrecision};
use std::cmp::Ordering;
use std::str::FromStr;

pub const NAME: &str = "decimal";

fn ten_pow(p: u64) -> BigInt { num_traits::pow(BigInt::from(10), p as usize) }

fn mk(p: u64, d: &BigInt) -> FixedDecimal { FixedDecimal::from_str(&d.to_string(), p).expect("from_str of an integer string") }

/// independent reader of the printed form: `-`? digits `.` digits → (negative, int part, fraction, #fraction digits)
fn read_printed(s: &str) -> Option<(bool, BigInt, BigInt, usize)> {
    let (neg, rest) = match s.strip_prefix('-') { Some(r) => (true, r), None => (false, s) };
    let (ip, fp) = rest.split_once('.')?;
    if ip.is_empty() || fp.is_empty() || !ip.bytes().all(|c| c.is_ascii_digit()) || !fp.bytes().all(|c| c.is_ascii_digit()) { return None; }
    Some((neg, BigInt::from_str(ip).ok()?, BigInt::from_str(fp).ok()?, fp.len()))
}

/// The stored integer of a `Decimal`, recovered from `Display` and then CONFIRMED through `PartialEq`
/// against `from_str` (which sets `data` directly), so a wrong `Display` cannot hide a wrong value.
fn data_of(d: &FixedDecimal, out: &mut Out, what: &str) -> Option<BigInt> {
    let s = d.to_string();
    let p = d.precision();
    let Some((neg, ip, fp, k)) = read_printed(&s) else {
        out.viol(format!("display-malformed prec={}", p), format!("{what}: printed `{s}`"));
        return None;
    };
    // value = ±(ip + fp/10^k); data = value * 10^p must be an integer
    let num = (ip * ten_pow(k as u64) + fp) * ten_pow(p);
    let (q, r) = num.div_rem(&ten_pow(k as u64));
    let data = if neg { -q } else { q };
    let digits_ok = if p == 0 { k == 1 } else { k as u64 == p };
    if !r.is_zero() || !digits_ok || (neg && data.is_zero()) || mk(p, &data) != *d {
        out.viol(format!("display-inexact prec={}", p), format!("{what}: printed `{s}` does not denote the stored value"));
        return None;
    }
    Some(data)
}

fn parse_dec(p: &str, d: &str) -> Option<(u64, BigInt)> { Some((p.parse().ok()?, BigInt::from_str(d).ok()?)) }

fn gen_value(g: &mut Gen, p: u64) -> BigInt {
    let m = ten_pow(p);
    let half = &m / 2;
    let k = BigInt::from(g.rng.below(2000)) - 1000;
    let small = BigInt::from(g.rng.below(7)) - 3;
    let v = match g.rng.below(12) {
        0 => BigInt::zero(),
        1 => small,                                           // 0, ±1, ±2, ±3 ulp (small negatives print as -0.00…0n)
        2 => &k * &m,                                         // integral
        3 => &k * &m + &half,                                 // exactly half-way
        4 => &k * &m + &half + small,                         // around half-way
        5 => &k * &m + small,                                 // around an integer
        6 => &k * &m - &half + small,
        7 => { let n = g.rng.range(1, 80) as usize; rand_digits(g, n) }
        8 => { let n = g.rng.range(30, 40) as usize; rand_digits(g, n) }
        9 => BigInt::from(g.rng.u64_edgy()) * if g.rng.chance(1, 2) { m.clone() } else { BigInt::one() },
        10 => &m * BigInt::from(g.rng.below(10)) + rand_digits(g, (p as usize).max(1)),
        _ => rand_digits(g, (p as usize + 3).min(60).max(1)),
    };
    if g.rng.chance(1, 2) { -v } else { v }
}

fn rand_digits(g: &mut Gen, n: usize) -> BigInt {
    let s: String = (0..n).map(|i| char::from(b'0' + if i == 0 { g.rng.range(1, 9) } else { g.rng.below(10) } as u8)).collect();
    BigInt::from_str(&s).unwrap()
}

pub fn generate(g: &mut Gen) {
    const PRECS: [u64; 7] = [0, 1, 2, 3, 17, 34, 40];
    for _ in 0..g.cases {
        let n = g.rng.range(4, 24);
        let mut ops = vec![];
        for _ in 0..n {
            let arith = g.rng.chance(1, 2);
            // arithmetic mostly at the default precision (the property's quantifier), rounding/printing at several
            let p = if arith && !g.rng.chance(1, 8) { 34 } else { *g.rng.pick(&PRECS) };
            let q = if g.rng.chance(1, 16) { *g.rng.pick(&PRECS) } else { p };
            let x = gen_value(g, p);
            let y = if g.rng.chance(1, 12) { x.clone() } else if g.rng.chance(1, 25) { BigInt::zero() } else { gen_value(g, q) };
            ops.push(if arith {
                match g.rng.below(8) {
                    0 => format!("add {p} {x} {q} {y}"),
                    1 => format!("sub {p} {x} {q} {y}"),
                    2 | 3 => format!("mul {p} {x} {q} {y}"),
                    4 | 5 => format!("div {p} {x} {q} {y}"),
                    6 => format!("cmp {p} {x} {q} {y}"),
                    _ => match g.rng.below(3) { 0 => format!("neg {p} {x}"), 1 => format!("abs {p} {x}"), _ => format!("fromint {}", g.rng.u64_edgy() as i64) },
                }
            } else {
                match g.rng.below(6) {
                    0 => format!("round {p} {x}"),
                    1 => format!("floor {p} {x}"),
                    2 => format!("ceil {p} {x}"),
                    3 => format!("trunc {p} {x}"),
                    4 => format!("show {p} {x}"),
                    _ => format!("round {p} {x}"),
                }
            });
        }
        g.case(ops);
    }
}

fn reply(out: &mut Out, r: Option<FixedDecimal>) {
    match r { Some(d) => out.ok(d.to_string()), None => out.panic() }
}

pub fn run_case(case: &Case, out: &mut Out) {
    let (mut neg_frac, mut halfway, mut inexact) = (false, false, false);
    for op in &case.ops {
        let name = op[0].as_str();
        match (name, op.len()) {
            ("add" | "sub" | "mul" | "div" | "cmp", 5) => {
                let (Some((p, x)), Some((q, y))) = (parse_dec(&op[1], &op[2]), parse_dec(&op[3], &op[4])) else { out.reply("bad-op".into()); continue };
                let (a, b) = (mk(p, &x), mk(q, &y));
                if name == "cmp" {
                    let r = a.partial_cmp(&b);
                    let e = a == b;
                    if p == q {
                        // exact rationals x/10^p vs y/10^q, cross-multiplied
                        let want = (&x * ten_pow(q)).cmp(&(&y * ten_pow(p)));
                        if r != Some(want) { out.viol(format!("cmp-vs-rational prec={p}"), format!("{x} ? {y}: partial_cmp={r:?} exact={want:?}")); }
                        if e != (want == Ordering::Equal) { out.viol(format!("eq-vs-rational prec={p}"), format!("{x} == {y}: {e}")); }
                    }
                    out.ok(format!("{} {}", match r { None => "none", Some(Ordering::Less) => "lt", Some(Ordering::Equal) => "eq", Some(Ordering::Greater) => "gt" }, e));
                    continue;
                }
                let r = match name {
                    "add" => guard(|| &a + &b),
                    "sub" => guard(|| &a - &b),
                    "mul" => guard(|| &a * &b),
                    _ => guard(|| &a / &b),
                };
                if let Some(rd) = &r {
                    if let Some(d) = data_of(rd, out, name) {
                        let pp = ten_pow(34);
                        match name {
                            "add" if p == q => if d != &x + &y { out.viol(format!("add-inexact prec={p}"), format!("{x} + {y} = {d}")); },
                            "sub" if p == q => if d != &x - &y { out.viol(format!("sub-inexact prec={p}"), format!("{x} - {y} = {d}")); },
                            "mul" if p == 34 && q == 34 => {
                                let prod = &x * &y;
                                if !(&d * &pp <= prod && prod < (&d + 1) * &pp) { out.viol("mul-not-floor", format!("{x} * {y} = {d}")); }
                                if !(&x * &y).is_multiple_of(&pp) { inexact = true; }
                            }
                            "div" if p == 34 && q == 34 && !y.is_zero() => {
                                // truncation toward zero of x*10^34 / y
                                let n = &x * &pp;
                                let qy = &d * &y;
                                let ok = qy.abs() <= n.abs() && n.abs() < qy.abs() + y.abs() && (qy.is_zero() || qy.sign() == n.sign());
                                if !ok { out.viol("div-not-trunc", format!("{x} / {y} = {d}")); }
                                if !n.is_multiple_of(&y) { inexact = true; }
                            }
                            _ => {}
                        }
                        if rd.precision() != p { out.viol("result-precision", format!("{name}: {} vs {p}", rd.precision())); }
                    }
                } else if !(name == "div" && y.is_zero()) {
                    out.viol(format!("{name}-panics"), format!("{x} {name} {y} at precision {p}/{q}"));
                }
                reply(out, r);
            }
            ("neg" | "abs" | "round" | "floor" | "ceil" | "trunc" | "show", 3) => {
                let Some((p, x)) = parse_dec(&op[1], &op[2]) else { out.reply("bad-op".into()); continue };
                let a = mk(p, &x);
                let m = ten_pow(p);
                let r = match name {
                    "neg" => guard(|| -&a),
                    "abs" => guard(|| (&a).abs()),
                    "round" => guard(|| a.round()),
                    "floor" => guard(|| a.floor()),
                    "ceil" => guard(|| a.ceil()),
                    "trunc" => guard(|| a.trunc()),
                    _ => guard(|| a.clone()),
                };
                let frac = !x.is_multiple_of(&m);
                if x.is_negative() && frac { neg_frac = true; }
                let twice: BigInt = &x * BigInt::from(2) - &m;
                if twice.is_multiple_of(&(&m * BigInt::from(2))) { halfway = true; }
                match &r {
                    None => out.viol(format!("{name}-panics prec={p}"), format!("{x}")),
                    Some(rd) => if let Some(d) = data_of(rd, out, name) {
                        let integral = d.is_multiple_of(&m);
                        let bad = match name {
                            "neg" => d != -&x,
                            "abs" => d != x.abs(),
                            "show" => d != x,
                            "floor" => !(integral && d <= x && x < &d + &m),
                            "ceil" => !(integral && x <= d && d < &x + &m),
                            "trunc" => !(integral && (&x - &d).abs() < m && d.abs() <= x.abs() && (d.is_zero() || d.sign() == x.sign())),
                            "round" => !(integral && (&d - &x).abs() * 2 <= m),
                            _ => false,
                        };
                        if bad {
                            let key = match name {
                                "round" => format!("round-not-nearest prec={}", if p == 0 { "0".to_string() } else { "pos".to_string() }),
                                _ => format!("{name}-wrong prec={p}"),
                            };
                            out.viol(key, format!("{name}({x} / 10^{p}) = {d} / 10^{p}"));
                        }
                        if rd.precision() != p { out.viol("result-precision", format!("{name}: {} vs {p}", rd.precision())); }
                    }
                }
                reply(out, r);
            }
            ("fromint", 2) => {
                let Ok(n) = op[1].parse::<i64>() else { out.reply("bad-op".into()); continue };
                let r = guard(|| FixedDecimal::from(n));
                if let Some(rd) = &r {
                    if let Some(d) = data_of(rd, out, name) {
                        if d != BigInt::from(n) * ten_pow(34) || rd.precision() != 34 { out.viol("from-i64", format!("{n} -> {d}")); }
                    }
                }
                reply(out, r);
            }
            _ => out.reply("bad-op".into()),
        }
    }
    if neg_frac { out.cov("negative-with-fraction"); }
    if halfway { out.cov("half-way"); }
    if inexact { out.cov("inexact-mul-or-div"); }
    // non-trivial: a rounding/printing op on a negative value with a non-zero fraction AND an inexact product/quotient
    if neg_frac && inexact { out.nontrivial(); }
}
