//! stream `txbuild` — C40: StagingTransaction builder methods + build_conway_raw vs the Lean model,
//! with an independent oracle (a shadow record of what was staged, kept in plain Rust collections)
//! that evaluates the property on the decoded built transaction.
use crate::fw::*;
use pallas_codec::minicbor;
use pallas_crypto::hash::{Hash, Hasher};
use pallas_primitives::Fragment;
use pallas_primitives::conway;
use pallas_txbuilder::{BuildConway, BuiltTransaction, ExUnits, Input, Output, ScriptKind, StagingTransaction};
use std::collections::{BTreeMap, BTreeSet};

pub const NAME: &str = "txbuild";

// ------------------------------------------------------------------------------------------ tokens

fn h32(s: &str) -> [u8; 32] { unhex(s).unwrap().try_into().unwrap() }
fn h28(s: &str) -> [u8; 28] { unhex(s).unwrap().try_into().unwrap() }
fn inp(s: &str) -> ([u8; 32], u64) { let (a, b) = s.split_once(':').unwrap(); (h32(a), b.parse().unwrap()) }
fn show_inp(i: &([u8; 32], u64)) -> String { format!("{}:{}", hex(&i.0), i.1) }
fn kind_of(s: &str) -> ScriptKind {
    match s { "native" => ScriptKind::Native, "v1" => ScriptKind::PlutusV1, "v2" => ScriptKind::PlutusV2, _ => ScriptKind::PlutusV3 }
}
fn kind_no(s: &str) -> u8 { match s { "native" => 0, "v1" => 1, "v2" => 2, _ => 3 } }
fn opt<T: std::fmt::Display>(x: &Option<T>) -> String { match x { None => "none".into(), Some(v) => v.to_string() } }

// ------------------------------------------------------------------------------------------ shadow

#[derive(Clone, Default, PartialEq, Debug)]
struct SOut {
    addr: Vec<u8>, coin: u64, assets: BTreeMap<([u8; 28], Vec<u8>), u64>,
    /// (is_inline, bytes, decodes)
    datum: Option<(bool, Vec<u8>, bool)>,
    /// (kind, bytes, decodes)
    script: Option<(u8, Vec<u8>, bool)>,
}
#[derive(Clone, Default)]
struct Shadow {
    inputs: Vec<([u8; 32], u64)>, refs: Vec<([u8; 32], u64)>, colls: Vec<([u8; 32], u64)>,
    outputs: Vec<SOut>, fee: Option<u64>, mint: BTreeMap<([u8; 28], Vec<u8>), i64>,
    vf: Option<u64>, ttl: Option<u64>, net: Option<u8>, coll_out: Option<SOut>, signers: Vec<[u8; 28]>,
    scripts: BTreeMap<[u8; 28], (u8, Vec<u8>, bool)>, datums: BTreeMap<[u8; 32], (Vec<u8>, bool)>,
    /// key: (0, input) | (1, policy)
    redeemers: BTreeMap<(u8, Vec<u8>, u64), (Vec<u8>, bool, Option<(u64, u64)>)>,
    lang: Option<BTreeMap<u8, Vec<i64>>>, aux: Option<Vec<u8>>,
}

/// parse the output description starting at `t[0]`; returns the pallas Output (or the failure
/// of an `add_asset` call) and the shadow
fn parse_output(t: &[String]) -> (Option<Result<Output, &'static str>>, SOut) {
    let addr = unhex(&t[0]).unwrap();
    let coin: u64 = t[1].parse().unwrap();
    let n: usize = t[2].parse().unwrap();
    let mut sh = SOut { addr: addr.clone(), coin, ..Default::default() };
    let mut fail: Option<&'static str> = None;
    let mut out = guard(|| Output::new(pallas_addresses::Address::from_bytes(&addr).unwrap(), coin));
    let mut p = 3;
    for _ in 0..n {
        let (pol, name, amt) = (h28(&t[p]), unhex(&t[p + 1]).unwrap(), t[p + 2].parse::<u64>().unwrap());
        p += 3;
        if fail.is_some() { continue; }
        let cur = out.take().unwrap();
        match guard_mut(|| cur.add_asset(Hash::<28>::from(pol), name.clone(), amt)) {
            None => fail = Some("panic"),
            Some(Err(_)) => fail = Some("assetname"),
            Some(Ok(o)) => {
                out = Some(o);
                let e = sh.assets.entry((pol, name)).or_insert(0);
                *e = e.wrapping_add(amt);
            }
        }
    }
    match t[p].as_str() {
        "none" => p += 1,
        "hash" => {
            let b = unhex(&t[p + 1]).unwrap();
            sh.datum = Some((false, b.clone(), b.len() == 32));
            // set_datum_hash takes a Hash<32>; other lengths can only be staged through the public field
            out = out.map(|mut o| {
                if let Ok(h) = <[u8; 32]>::try_from(b.as_slice()) { o.set_datum_hash(h.into()) } else {
                    o = o.set_datum_hash([0u8; 32].into());
                    if let Some(d) = o.datum.as_mut() { d.bytes = b.clone().into(); }
                    o
                }
            });
            p += 2;
        }
        _ => {
            let b = unhex(&t[p + 1]).unwrap();
            sh.datum = Some((true, b.clone(), t[p + 2] == "1"));
            out = out.map(|o| o.set_inline_datum(b));
            p += 3;
        }
    }
    if t[p] != "none" {
        let b = unhex(&t[p + 1]).unwrap();
        sh.script = Some((kind_no(&t[p]), b.clone(), t[p + 2] == "1"));
        out = out.map(|o| o.set_inline_script(kind_of(&t[p]), b));
    }
    (Some(match fail { Some(f) => Err(f), None => Ok(out.unwrap()) }), sh)
}

// ------------------------------------------------------------------------------------------ view of a built tx

fn show_assets<Q: std::fmt::Display>(m: &BTreeMap<[u8; 28], BTreeMap<Vec<u8>, Q>>) -> String {
    let ps: Vec<String> = m.iter().map(|(p, names)| {
        let ns: Vec<String> = names.iter().map(|(n, q)| format!("{}={}", hex(n), q)).collect();
        format!("{}:{{{}}}", hex(p), ns.join(","))
    }).collect();
    format!("{{{}}}", ps.join(","))
}

struct VOut { addr: Vec<u8>, coin: u64, assets: BTreeMap<[u8; 28], BTreeMap<Vec<u8>, u64>>, datum: Option<(bool, Vec<u8>)>, script: Option<(u8, Vec<u8>)> }
impl VOut {
    fn show(&self) -> String {
        format!("{}/{}/{}/{}/{}", hex(&self.addr), self.coin, show_assets(&self.assets),
            match &self.datum { None => "none".into(), Some((inl, b)) => format!("{}.{}", if *inl { "i" } else { "h" }, hex(b)) },
            match &self.script { None => "none".into(), Some((k, b)) => format!("{}.{}", k, hex(b)) })
    }
}
struct View {
    inputs: Vec<([u8; 32], u64)>, outputs: Vec<VOut>, fee: u64, ttl: Option<u64>, vf: Option<u64>,
    mint: BTreeMap<[u8; 28], BTreeMap<Vec<u8>, i64>>, mint_present: bool, coll: Vec<([u8; 32], u64)>, signers: Vec<[u8; 28]>,
    net: Option<u8>, cr: Option<VOut>, refs: Vec<([u8; 32], u64)>, sdh: Option<[u8; 32]>, adh: Option<[u8; 32]>,
    /// bytes of witness-set fields 5 and 4 as they sit in the transaction
    rd_raw: Option<Vec<u8>>, pd_raw: Option<Vec<u8>>,
    scripts: Vec<(u8, Vec<u8>)>, datums: Vec<Vec<u8>>, rd: Vec<(u8, u32, Vec<u8>, u64, u64)>, aux: Option<Vec<u8>>,
    body_hash_ok: bool, empty_sets: Vec<&'static str>, tx_hash: [u8; 32], tx_bytes: Vec<u8>,
}

fn enc<T: minicbor::Encode<()>>(x: &T) -> Vec<u8> { minicbor::to_vec(x).unwrap() }

fn view_out(o: &conway::TransactionOutput) -> Result<VOut, String> {
    let conway::TransactionOutput::PostAlonzo(o) = o else { return Err("legacy output".into()) };
    let (coin, assets) = match &o.value {
        conway::Value::Coin(c) => (*c, BTreeMap::new()),
        conway::Value::Multiasset(c, m) => (*c, m.iter().map(|(p, ns)| {
            let mut pp = [0u8; 28]; pp.copy_from_slice(p.as_ref());
            (pp, ns.iter().map(|(n, q)| (n.to_vec(), u64::from(*q))).collect())
        }).collect()),
    };
    let datum = match o.datum_option.as_deref() {
        None => None,
        Some(conway::DatumOption::Hash(h)) => Some((false, h.to_vec())),
        Some(conway::DatumOption::Data(d)) => Some((true, enc(&d.0))),
    };
    let script = match o.script_ref.as_ref().map(|x| &x.0) {
        None => None,
        Some(conway::ScriptRef::NativeScript(s)) => Some((0, enc(s))),
        Some(conway::ScriptRef::PlutusV1Script(s)) => Some((1, s.0.to_vec())),
        Some(conway::ScriptRef::PlutusV2Script(s)) => Some((2, s.0.to_vec())),
        Some(conway::ScriptRef::PlutusV3Script(s)) => Some((3, s.0.to_vec())),
    };
    Ok(VOut { addr: o.address.to_vec(), coin, assets, datum, script })
}

fn view(tx: &BuiltTransaction) -> Result<View, String> {
    let bytes = &tx.tx_bytes.0;
    let dec = conway::Tx::decode_fragment(bytes).map_err(|e| format!("tx_bytes do not decode: {e}"))?;
    // the id must be the hash of the body bytes as they sit in tx_bytes: slice them independently
    let mut d = minicbor::Decoder::new(bytes);
    d.array().map_err(|e| e.to_string())?;
    let a = d.position();
    d.skip().map_err(|e| e.to_string())?;
    let b = d.position();
    let body_hash_ok = *Hasher::<256>::hash(&bytes[a..b]) == tx.tx_hash.0;
    let body = &dec.transaction_body;
    let ws = &dec.transaction_witness_set;
    let ti = |i: &conway::TransactionInput| { let mut h = [0u8; 32]; h.copy_from_slice(i.transaction_id.as_ref()); (h, i.index) };
    let mut empty_sets = vec![];
    let mut scripts = vec![];
    if let Some(s) = &ws.native_script { if s.is_empty() { empty_sets.push("native_script"); } for x in s.iter() { scripts.push((0u8, enc(x))); } }
    if let Some(s) = &ws.plutus_v1_script { if s.is_empty() { empty_sets.push("plutus_v1"); } for x in s.iter() { scripts.push((1, x.0.to_vec())); } }
    if let Some(s) = &ws.plutus_v2_script { if s.is_empty() { empty_sets.push("plutus_v2"); } for x in s.iter() { scripts.push((2, x.0.to_vec())); } }
    if let Some(s) = &ws.plutus_v3_script { if s.is_empty() { empty_sets.push("plutus_v3"); } for x in s.iter() { scripts.push((3, x.0.to_vec())); } }
    let mut datums = vec![];
    if let Some(s) = &ws.plutus_data { if s.is_empty() { empty_sets.push("plutus_data"); } for x in s.iter() { datums.push(enc(x)); } }
    let mut rd = vec![];
    match ws.redeemer.as_deref() {
        None => {}
        Some(conway::Redeemers::List(l)) => {
            if l.is_empty() { empty_sets.push("redeemers"); }
            for r in l { rd.push((match r.tag { conway::RedeemerTag::Spend => 0u8, conway::RedeemerTag::Mint => 1, _ => 9 }, r.index, enc(&r.data), r.ex_units.mem, r.ex_units.steps)); }
        }
        Some(conway::Redeemers::Map(_)) => return Err("redeemers encoded as a map".into()),
    }
    if matches!(&body.collateral, Some(s) if s.is_empty()) { empty_sets.push("collateral"); }
    if matches!(&body.required_signers, Some(s) if s.is_empty()) { empty_sets.push("required_signers"); }
    if matches!(&body.reference_inputs, Some(s) if s.is_empty()) { empty_sets.push("reference_inputs"); }
    let mut mint = BTreeMap::new();
    if let Some(m) = &body.mint {
        for (p, ns) in m.iter() {
            let mut pp = [0u8; 28]; pp.copy_from_slice(p.as_ref());
            mint.insert(pp, ns.iter().map(|(n, q)| (n.to_vec(), i64::from(*q))).collect::<BTreeMap<_, _>>());
        }
    }
    let aux: Option<Vec<u8>> = match &dec.auxiliary_data { pallas_codec::utils::Nullable::Some(a) => Some(enc(a)), _ => None };
    Ok(View {
        inputs: body.inputs.iter().map(ti).collect(),
        outputs: body.outputs.iter().map(view_out).collect::<Result<_, _>>()?,
        fee: body.fee, ttl: body.ttl, vf: body.validity_interval_start,
        mint, mint_present: body.mint.is_some(),
        coll: body.collateral.iter().flat_map(|s| s.iter()).map(ti).collect(),
        signers: body.required_signers.iter().flat_map(|s| s.iter()).map(|h| { let mut a = [0u8; 28]; a.copy_from_slice(h.as_ref()); a }).collect(),
        net: body.network_id.map(|n| match n { conway::NetworkId::Testnet => 0, conway::NetworkId::Mainnet => 1 }),
        cr: match &body.collateral_return { None => None, Some(o) => Some(view_out(o)?) },
        refs: body.reference_inputs.iter().flat_map(|s| s.iter()).map(ti).collect(),
        sdh: body.script_data_hash.map(|h| { let mut a = [0u8; 32]; a.copy_from_slice(h.as_ref()); a }),
        rd_raw: ws.redeemer.as_ref().map(|r| r.raw_cbor().to_vec()), pd_raw: ws.plutus_data.as_ref().map(|r| r.raw_cbor().to_vec()),
        adh: body.auxiliary_data_hash.map(|h| { let mut a = [0u8; 32]; a.copy_from_slice(h.as_ref()); a }),
        scripts, datums, rd, aux, body_hash_ok, empty_sets, tx_hash: tx.tx_hash.0, tx_bytes: bytes.clone(),
    })
}

fn show_view(v: &View) -> String {
    let l = |xs: &[([u8; 32], u64)]| format!("[{}]", xs.iter().map(show_inp).collect::<Vec<_>>().join(" "));
    let mut sc: Vec<String> = v.scripts.iter().map(|(k, b)| format!("{}:{}", k, hex(b))).collect(); sc.sort();
    let mut pd: Vec<String> = v.datums.iter().map(|b| hex(b)).collect(); pd.sort();
    let mut rd: Vec<String> = v.rd.iter().map(|(t, i, d, m, s)| format!("{}:{}:{}:{}:{}", t, i, hex(d), m, s)).collect(); rd.sort();
    let id_free = v.rd.len() <= 1 && v.datums.len() <= 1;
    let tx_free = id_free && (0..4u8).all(|k| v.scripts.iter().filter(|s| s.0 == k).count() <= 1);
    format!("in={} out=[{}] fee={} ttl={} vf={} mint={} coll={} sig=[{}] net={} cr={} ref={} sdh={} adh={} sc=[{}] pd=[{}] rd=[{}] aux={} id={} tx={}",
        l(&v.inputs), v.outputs.iter().map(|o| o.show()).collect::<Vec<_>>().join(" "), v.fee, opt(&v.ttl), opt(&v.vf),
        show_assets(&v.mint), l(&v.coll), v.signers.iter().map(|h| hex(h)).collect::<Vec<_>>().join(" "), opt(&v.net),
        v.cr.as_ref().map(|o| o.show()).unwrap_or("none".into()), l(&v.refs),
        // the value where it does not depend on a HashMap iteration order, else its presence
        match &v.sdh { None => "0".to_string(), Some(h) => if v.rd.len() <= 1 && v.datums.len() <= 1 { hex(h) } else { "1".into() } },
        v.adh.is_some() as u8,
        sc.join(" "), pd.join(" "), rd.join(" "), v.aux.as_ref().map(|b| hex(b)).unwrap_or("none".into()),
        // id and full bytes where no HashMap iteration order enters them
        if id_free { hex(&v.tx_hash) } else { "*".into() }, if tx_free { hex(&v.tx_bytes) } else { "*".into() })
}

// ------------------------------------------------------------------------------------------ oracle

fn nz<Q: Copy + PartialEq + Default>(m: &BTreeMap<([u8; 28], Vec<u8>), Q>) -> BTreeMap<[u8; 28], BTreeMap<Vec<u8>, Q>> {
    let mut r: BTreeMap<[u8; 28], BTreeMap<Vec<u8>, Q>> = BTreeMap::new();
    for ((p, n), q) in m { if *q != Q::default() { r.entry(*p).or_default().insert(n.clone(), *q); } }
    r
}
fn out_reasons(o: &SOut, why: &mut BTreeSet<&'static str>) {
    if let Some((inl, _, ok)) = &o.datum { if !ok { why.insert(if *inl { "datum" } else { "datumhash" }); } }
    if let Some((0, _, false)) = &o.script { why.insert("script"); }
}
/// reasons for which this staging may be refused (error classes), by the documented rules
fn refusal_reasons(sh: &Shadow) -> BTreeSet<&'static str> {
    let mut why = BTreeSet::new();
    for o in &sh.outputs { out_reasons(o, &mut why); }
    if let Some(o) = &sh.coll_out { out_reasons(o, &mut why); }
    if matches!(sh.net, Some(n) if n > 1) { why.insert("netid"); }
    if sh.scripts.values().any(|(k, _, ok)| *k == 0 && !ok) { why.insert("script"); }
    if sh.datums.values().any(|(_, ok)| !ok) { why.insert("datum"); }
    let inputs: BTreeSet<_> = sh.inputs.iter().cloned().collect();
    let policies: BTreeSet<[u8; 28]> = nz(&sh.mint).keys().cloned().collect();
    for ((tag, key, idx), (_, ok, ex)) in &sh.redeemers {
        if ex.is_none() { why.insert("exunits"); }
        if !ok { why.insert("datum"); }
        let present = if *tag == 0 { inputs.contains(&(key.as_slice().try_into().unwrap(), *idx)) } else { policies.contains(&<[u8; 28]>::try_from(key.as_slice()).unwrap()) };
        if !present { why.insert("target"); }
    }
    why
}
fn check_out(tag: &str, got: &VOut, want: &SOut, out: &mut Out) {
    let wa = nz(&want.assets);
    if got.addr != want.addr || got.coin != want.coin { out.viol(format!("output-differs field=address-or-coin at={tag}"), format!("{} vs staged {}/{}", got.show(), hex(&want.addr), want.coin)); }
    if got.assets != wa { out.viol(format!("output-differs field=assets at={tag}"), format!("{} vs staged {}", show_assets(&got.assets), show_assets(&wa))); }
    let wd = want.datum.as_ref().map(|(i, b, _)| (*i, b.clone()));
    if got.datum != wd { out.viol(format!("output-differs field=datum at={tag}"), format!("{:?} vs staged {:?}", got.datum, wd)); }
    let ws = want.script.as_ref().map(|(k, b, _)| (*k, b.clone()));
    if got.script != ws { out.viol(format!("output-differs field=script at={tag}"), format!("{:?} vs staged {:?}", got.script, ws)); }
}

fn oracle(v: &View, sh: &Shadow, out: &mut Out) {
    if !v.body_hash_ok { out.viol("id-not-hash-of-body", "tx_hash differs from blake2b-256 of the body bytes inside tx_bytes"); }
    for s in &v.empty_sets { out.viol(format!("empty-set-encoded field={s}"), "a non-empty set field is present but empty"); }
    let canon: Vec<_> = sh.inputs.iter().cloned().collect::<BTreeSet<_>>().into_iter().collect();
    if v.inputs != canon {
        let as_set: BTreeSet<_> = v.inputs.iter().cloned().collect();
        let what = if as_set.len() != v.inputs.len() { "duplicate" } else if as_set.into_iter().collect::<Vec<_>>() == canon { "order" } else { "content" };
        out.viol(format!("inputs-not-the-canonical-set kind={what}"), format!("built {} inputs, staged set has {}", v.inputs.len(), canon.len()));
    }
    if v.outputs.len() != sh.outputs.len() { out.viol("output-count", format!("{} vs {}", v.outputs.len(), sh.outputs.len())); }
    for (i, (g, w)) in v.outputs.iter().zip(&sh.outputs).enumerate() { check_out(&format!("{i}"), g, w, out); }
    match (&v.cr, &sh.coll_out) {
        (Some(g), Some(w)) => check_out("collateral-return", g, w, out),
        (None, None) => {}
        _ => out.viol("collateral-return-presence", ""),
    }
    if v.fee != sh.fee.unwrap_or(0) { out.viol("field-differs name=fee", format!("{} vs {:?}", v.fee, sh.fee)); }
    if v.ttl != sh.ttl { out.viol("field-differs name=ttl", format!("{:?} vs {:?}", v.ttl, sh.ttl)); }
    if v.vf != sh.vf { out.viol("field-differs name=validity-start", format!("{:?} vs {:?}", v.vf, sh.vf)); }
    if v.net != sh.net { out.viol("field-differs name=network-id", format!("{:?} vs {:?}", v.net, sh.net)); }
    if v.coll != sh.colls { out.viol("field-differs name=collateral", ""); }
    if v.refs != sh.refs { out.viol("field-differs name=reference-inputs", ""); }
    if v.signers != sh.signers { out.viol("field-differs name=required-signers", ""); }
    let wm = nz(&sh.mint);
    if v.mint != wm { out.viol("mint-differs", format!("{} vs net staged {}", show_assets(&v.mint), show_assets(&wm))); }
    if v.mint_present && v.mint.is_empty() { out.viol("empty-set-encoded field=mint", ""); }
    let mut gs: Vec<_> = v.scripts.clone(); gs.sort();
    let mut wsx: Vec<_> = sh.scripts.values().map(|(k, b, _)| (*k, b.clone())).collect(); wsx.sort();
    if gs != wsx { out.viol("scripts-differ", format!("{} built vs {} staged", gs.len(), wsx.len())); }
    let mut gd = v.datums.clone(); gd.sort();
    let mut wd: Vec<_> = sh.datums.values().map(|(b, _)| b.clone()).collect(); wd.sort();
    if gd != wd { out.viol("datums-differ", format!("{} built vs {} staged", gd.len(), wd.len())); }
    if v.aux != sh.aux { out.viol("aux-data-differs", ""); }
    match (&v.adh, &v.aux) {
        (Some(h), Some(a)) => if *Hasher::<256>::hash(a) != *h { out.viol("aux-data-hash-wrong", ""); },
        (None, None) => {}
        _ => out.viol("aux-data-hash-presence", ""),
    }
    // script integrity hash: with language views staged and at least one redeemer or witness datum, and then
    // blake2b-256 over (redeemers as written | a0) ++ (datums as written) ++ (language views, only with redeemers | a0)
    let want_sdh = sh.lang.is_some() && (!sh.redeemers.is_empty() || !sh.datums.is_empty());
    if v.sdh.is_some() != want_sdh { out.viol("script-data-hash-presence", format!("present={} language views staged={} redeemers={} datums={}", v.sdh.is_some(), sh.lang.is_some(), sh.redeemers.len(), sh.datums.len())); }
    if let (Some(h), Some(lv)) = (&v.sdh, &sh.lang) {
        let mut buf = v.rd_raw.clone().unwrap_or(vec![0xa0]);
        if let Some(d) = &v.pd_raw { buf.extend(d); }
        if v.rd_raw.is_some() {
            let views: conway::LanguageViews = lv.iter().map(|(k, c)| (*k, c.clone())).collect();
            buf.extend(minicbor::to_vec(&views).unwrap());
        } else { buf.push(0xa0); }
        if *Hasher::<256>::hash(&buf) != *h { out.viol("script-data-hash-wrong", format!("{} redeemers, {} datums", v.rd.len(), v.datums.len())); }
    }
    // redeemers: one per staged redeemer, pointing at its target in the ledger's order
    // (ascending *set* of inputs; ascending policy ids of the mint field)
    let policies: Vec<[u8; 28]> = wm.keys().cloned().collect();
    let mut left = v.rd.clone();
    for ((tag, key, idx), (data, _, ex)) in &sh.redeemers {
        let want_index = if *tag == 0 {
            canon.iter().position(|i| i.0.as_slice() == key.as_slice() && i.1 == *idx)
        } else { policies.iter().position(|p| p.as_slice() == key.as_slice()) };
        let (mem, steps) = ex.unwrap_or((0, 0));
        match left.iter().position(|r| r.0 == *tag && r.2 == *data && r.3 == mem && r.4 == steps && Some(r.1 as usize) == want_index) {
            Some(k) => { left.remove(k); }
            None => {
                let near = left.iter().find(|r| r.0 == *tag && r.2 == *data).map(|r| r.1);
                out.viol(format!("redeemer-pointer purpose={}", if *tag == 0 { "spend" } else { "mint" }),
                    format!("target {}:{} is at position {:?} of the ledger order, built redeemer has index {:?}", hex(key), idx, want_index, near));
            }
        }
    }
    if !left.is_empty() { out.viol("redeemer-extra", format!("{} built redeemers match no staged one", left.len())); }
}

// ------------------------------------------------------------------------------------------ run

fn err_class(e: &pallas_txbuilder::TxBuilderError) -> &'static str {
    match format!("{e:?}").as_str() {
        "MalformedScript" => "script", "MalformedDatum" => "datum", "MalformedDatumHash" => "datumhash",
        "RedeemerTargetMissing" => "target", "InvalidNetworkId" => "netid", "AssetNameTooLong" => "assetname",
        "MissingExUnits" => "exunits", _ => "other",
    }
}

pub fn run_case(case: &Case, out: &mut Out) {
    let mut st = StagingTransaction::new();
    let mut sh = Shadow::default();
    let (mut built_ok, mut dup_input, mut cancelled, mut deep_pointer) = (false, false, false, false);
    for op in &case.ops {
        let a = |i: usize| op[i].as_str();
        // staging ops that cannot fail
        macro_rules! simple { ($e:expr) => {{ let cur = st.clone(); match guard_mut(|| $e(cur)) {
            Some(n) => { st = n; out.ok(""); true }
            None => { out.viol(format!("panic staging-op={}", a(0)), "a builder method panicked"); out.panic(); false } } }} }
        match a(0) {
            "input" => { let i = inp(a(1)); if simple!(|s: StagingTransaction| s.input(Input::new(i.0.into(), i.1))) { if sh.inputs.contains(&i) { dup_input = true; } sh.inputs.push(i); } }
            "rminput" => { let i = inp(a(1)); if simple!(|s: StagingTransaction| s.remove_input(Input::new(i.0.into(), i.1))) { sh.inputs.retain(|x| *x != i); } }
            "refin" => { let i = inp(a(1)); if simple!(|s: StagingTransaction| s.reference_input(Input::new(i.0.into(), i.1))) { sh.refs.push(i); } }
            "rmrefin" => { let i = inp(a(1)); if simple!(|s: StagingTransaction| s.remove_reference_input(Input::new(i.0.into(), i.1))) { sh.refs.retain(|x| *x != i); } }
            "collin" => { let i = inp(a(1)); if simple!(|s: StagingTransaction| s.collateral_input(Input::new(i.0.into(), i.1))) { sh.colls.push(i); } }
            "rmcollin" => { let i = inp(a(1)); if simple!(|s: StagingTransaction| s.remove_collateral_input(Input::new(i.0.into(), i.1))) { sh.colls.retain(|x| *x != i); } }
            "output" | "collout" => {
                let (o, so) = parse_output(&op[1..]);
                match o.unwrap() {
                    Err("panic") => {
                        // `*q += amount` overflowed: a panic of a staging call, not of build (noted, not a C40 clause)
                        out.cov("staging-overflow-panic"); out.panic();
                    }
                    Err(c) => out.err(c),
                    Ok(o) => {
                        if a(0) == "output" { st = st.clone().output(o); sh.outputs.push(so); } else { st = st.clone().collateral_output(o); sh.coll_out = Some(so); }
                        out.ok("");
                    }
                }
            }
            "clearcollout" => { if simple!(|s: StagingTransaction| s.clear_collateral_output()) { sh.coll_out = None; } }
            "rmoutput" => {
                let i: usize = a(1).parse().unwrap();
                let cur = st.clone();
                match guard_mut(|| cur.remove_output(i)) {
                    Some(n) => { st = n; if i < sh.outputs.len() { sh.outputs.remove(i); } else { out.viol("remove-output-out-of-range-accepted", ""); } out.ok(""); }
                    None => { if i < sh.outputs.len() { out.viol("panic staging-op=rmoutput", "in-range index"); } else { out.cov("staging-index-panic"); } out.panic(); }
                }
            }
            "fee" => { let n: u64 = a(1).parse().unwrap(); if simple!(|s: StagingTransaction| s.fee(n)) { sh.fee = Some(n); } }
            "clearfee" => { if simple!(|s: StagingTransaction| s.clear_fee()) { sh.fee = None; } }
            "validfrom" => { let n: u64 = a(1).parse().unwrap(); if simple!(|s: StagingTransaction| s.valid_from_slot(n)) { sh.vf = Some(n); } }
            "clearvalidfrom" => { if simple!(|s: StagingTransaction| s.clear_valid_from_slot()) { sh.vf = None; } }
            "invalidfrom" => { let n: u64 = a(1).parse().unwrap(); if simple!(|s: StagingTransaction| s.invalid_from_slot(n)) { sh.ttl = Some(n); } }
            "clearinvalidfrom" => { if simple!(|s: StagingTransaction| s.clear_invalid_from_slot()) { sh.ttl = None; } }
            "netid" => { let n: u8 = a(1).parse().unwrap(); if simple!(|s: StagingTransaction| s.network_id(n)) { sh.net = Some(n); } }
            "clearnetid" => { if simple!(|s: StagingTransaction| s.clear_network_id()) { sh.net = None; } }
            "mint" => {
                let (p, n, q) = (h28(a(1)), unhex(a(2)).unwrap(), a(3).parse::<i64>().unwrap());
                let cur = st.clone();
                match guard_mut(|| cur.mint_asset(p.into(), n.clone(), q)) {
                    None => {
                        let overflow = sh.mint.get(&(p, n.clone())).map(|x| x.checked_add(q).is_none()).unwrap_or(false);
                        if overflow { out.cov("staging-overflow-panic"); } else { out.viol("panic staging-op=mint", "no overflow"); }
                        out.panic();
                    }
                    Some(Err(_)) => { if n.len() <= 32 { out.viol("mint-refused", ""); } out.err("assetname"); }
                    Some(Ok(s)) => {
                        st = s;
                        let e = sh.mint.entry((p, n)).or_insert(0);
                        *e = e.wrapping_add(q);
                        if *e == 0 { cancelled = true; }
                        out.ok("");
                    }
                }
            }
            "rmmint" => { let (p, n) = (h28(a(1)), unhex(a(2)).unwrap()); if simple!(|s: StagingTransaction| s.remove_mint_asset(p.into(), n.clone())) { sh.mint.remove(&(p, n)); } }
            "signer" => { let h = h28(a(1)); if simple!(|s: StagingTransaction| s.disclosed_signer(h.into())) { sh.signers.push(h); } }
            "rmsigner" => { let h = h28(a(1)); if simple!(|s: StagingTransaction| s.remove_disclosed_signer(h.into())) { sh.signers.retain(|x| *x != h); } }
            "script" => {
                let (k, b, ok, h) = (a(1), unhex(a(2)).unwrap(), a(3) == "1", h28(a(4)));
                let want = *Hasher::<224>::hash_tagged(&b, kind_no(k));
                if want != h { out.viol("generator-script-hash", ""); }
                if simple!(|s: StagingTransaction| s.script(kind_of(k), b.clone())) { sh.scripts.insert(h, (kind_no(k), b, ok)); }
            }
            "rmscript" => { let h = h28(a(1)); if simple!(|s: StagingTransaction| s.remove_script_by_hash(h.into())) { sh.scripts.remove(&h); } }
            "datum" => {
                let (b, ok, h) = (unhex(a(1)).unwrap(), a(2) == "1", h32(a(3)));
                if simple!(|s: StagingTransaction| s.datum(b.clone())) { sh.datums.insert(h, (b, ok)); }
            }
            "rmdatum" => { let (b, h) = (unhex(a(1)).unwrap(), h32(a(2))); if simple!(|s: StagingTransaction| s.remove_datum(b.clone())) { sh.datums.remove(&h); } }
            "rmdatumhash" => { let h = h32(a(1)); if simple!(|s: StagingTransaction| s.remove_datum_by_hash(h.into())) { sh.datums.remove(&h); } }
            "addlang" => {
                let k = a(1); let costs: Vec<i64> = op[3..].iter().map(|x| x.parse().unwrap()).collect();
                if simple!(|s: StagingTransaction| s.add_language(kind_of(k), costs.clone())) { if k != "native" { sh.lang.get_or_insert_with(BTreeMap::new).insert(kind_no(k) - 1, costs); } }
            }
            "spendrd" | "mintrd" => {
                let (b, ok) = (unhex(a(2)).unwrap(), a(3) == "1");
                let ex = if a(4) == "none" { None } else { Some((a(5).parse::<u64>().unwrap(), a(6).parse::<u64>().unwrap())) };
                let exu = ex.map(|(mem, steps)| ExUnits { mem, steps });
                if a(0) == "spendrd" {
                    let i = inp(a(1));
                    if simple!(|s: StagingTransaction| s.add_spend_redeemer(Input::new(i.0.into(), i.1), b.clone(), exu.clone())) { sh.redeemers.insert((0, i.0.to_vec(), i.1), (b, ok, ex)); }
                } else {
                    let p = h28(a(1));
                    if simple!(|s: StagingTransaction| s.add_mint_redeemer(p.into(), b.clone(), exu.clone())) { sh.redeemers.insert((1, p.to_vec(), 0), (b, ok, ex)); }
                }
            }
            "rmspendrd" => { let i = inp(a(1)); if simple!(|s: StagingTransaction| s.remove_spend_redeemer(Input::new(i.0.into(), i.1))) { sh.redeemers.remove(&(0, i.0.to_vec(), i.1)); } }
            "rmmintrd" => { let p = h28(a(1)); if simple!(|s: StagingTransaction| s.remove_mint_redeemer(p.into())) { sh.redeemers.remove(&(1, p.to_vec(), 0)); } }
            "aux" => { let (b, ok) = (unhex(a(1)).unwrap(), a(2) == "1"); if simple!(|s: StagingTransaction| s.add_auxiliary_data(b.clone())) { if ok { sh.aux = Some(b); } } }
            "clearaux" => { if simple!(|s: StagingTransaction| s.clear_auxiliary_data()) { sh.aux = None; } }
            "build" => {
                let cur = st.clone();
                let why = refusal_reasons(&sh);
                match guard_mut(|| cur.build_conway_raw()) {
                    None => {
                        let zero_mint = sh.mint.values().any(|q| *q == 0);
                        let zero_out = sh.outputs.iter().chain(sh.coll_out.iter()).any(|o| o.assets.values().any(|q| *q == 0));
                        let no_ex = sh.redeemers.values().any(|r| r.2.is_none());
                        let what = if zero_mint { "zero-mint-quantity" } else if zero_out { "zero-output-asset" } else if no_ex { "redeemer-without-ex-units" } else { "other" };
                        out.viol(format!("panic build cause={what}"), "build_conway_raw panicked on a staging assembled through the public builder methods");
                        out.panic();
                    }
                    Some(Err(e)) => {
                        let c = err_class(&e);
                        if !why.contains(c) { out.viol(format!("build-refused-without-cause class={c}"), format!("documented reasons present: {why:?}")); }
                        out.cov(format!("build-err-{c}"));
                        // which redeemer of the HashMap fails first is unspecified: the three classes of that loop reply alike
                        let early_datum = sh.datums.values().any(|(_, ok)| !ok)
                            || sh.outputs.iter().chain(sh.coll_out.iter()).any(|o| matches!(&o.datum, Some((true, _, false))));
                        out.err(match c { "target" | "exunits" => "redeemer", "datum" if !early_datum => "redeemer", c => c });
                    }
                    Some(Ok(tx)) => {
                        if !why.is_empty() { out.viol(format!("build-accepted-malformed reasons={}", why.iter().cloned().collect::<Vec<_>>().join("+")), ""); }
                        match view(&tx) {
                            Err(e) => { out.viol("built-bytes-do-not-decode", e); out.err("decode"); }
                            Ok(v) => {
                                oracle(&v, &sh, out);
                                built_ok = true;
                                if v.rd.iter().any(|r| r.1 > 0) { deep_pointer = true; }
                                out.ok(show_view(&v));
                            }
                        }
                    }
                }
            }
            _ => out.reply("bad-op".into()),
        }
    }
    if built_ok { out.cov("built"); }
    if dup_input { out.cov("duplicate-staged-input"); }
    if cancelled { out.cov("mint-cancelled-to-zero"); }
    if deep_pointer { out.cov("redeemer-index-above-0"); }
    if built_ok && (deep_pointer || (dup_input && cancelled)) { out.nontrivial(); }
}

// ------------------------------------------------------------------------------------------ generator

fn data_ok(h: &str) -> bool { conway::PlutusData::decode_fragment(&unhex(h).unwrap()).is_ok() }
fn native_ok(h: &str) -> bool { conway::NativeScript::decode_fragment(&unhex(h).unwrap()).is_ok() }
fn aux_ok(h: &str) -> bool { minicbor::decode::<conway::AuxiliaryData>(&unhex(h).unwrap()).is_ok() }
// the booleans in these tables are only the intent; the flag put on the op line is computed with the pallas decoders
const DATA: [(&str, bool); 9] = [("182a", true), ("d87980", true), ("9f0102ff", true), ("43010203", true), ("a10102", true),
    ("1903e8", true), ("d8799f0102ff", true), ("ff", false), ("8201", false)];
const NATIVE: [(&str, bool); 4] = [("8200581c01010101010101010101010101010101010101010101010101010101", true),
    ("82041903e8", true), ("8201818200581c02020202020202020202020202020202020202020202020202020202", true), ("ff", false)];
const PLUTUS: [&str; 3] = ["4e4d01000033222220051200120011", "46010000222001", "00"];
const AUX: [(&str, bool); 4] = [("a1016568656c6c6f", true), ("a0", true), ("82a101616180", true), ("ff", false)];

struct Pools { hashes: Vec<[u8; 32]>, policies: Vec<[u8; 28]>, names: Vec<Vec<u8>>, addrs: Vec<Vec<u8>>, idx: Vec<u64> }
fn pools() -> Pools {
    let mut a = [0u8; 32]; a[31] = 1;
    let mut b = [0u8; 32]; b[31] = 2;
    let mut c = [0u8; 32]; c[0] = 1;
    let d = [0xffu8; 32];
    let mut e = [0x7fu8; 32]; e[15] = 0x80;
    let mut p1 = [0x11u8; 28]; p1[27] = 0x12;
    let mut addr1 = vec![0x61u8]; addr1.extend([0xa1u8; 28]);
    let mut addr2 = vec![0x01u8]; addr2.extend([0xb2u8; 56]);
    Pools {
        hashes: vec![a, b, c, d, e],
        policies: vec![[0x11u8; 28], p1, [0xeeu8; 28], [0x00u8; 28]],
        names: vec![vec![], vec![0x41], vec![0x41, 0x42], vec![0x61], vec![0x5a; 32], vec![0x5a; 33]],
        addrs: vec![addr1, addr2],
        idx: vec![0, 1, 2, 255, 256, 65536, u32::MAX as u64, u32::MAX as u64 + 1, u64::MAX],
    }
}

fn gen_output(g: &mut Gen, p: &Pools) -> String {
    let mut s = format!("{} {}", hex(&g.rng.pick(&p.addrs)[..]), g.rng.u64_edgy());
    let n = if g.rng.chance(1, 2) { 0 } else { g.rng.range(1, 4) };
    s += &format!(" {n}");
    for _ in 0..n {
        let amt = match g.rng.below(12) { 0 => 0, 1 => u64::MAX, 2 => 1 << 63, _ => 1 + g.rng.below(1000) };
        let name = if g.rng.chance(1, 25) { &p.names[5] } else { &p.names[g.rng.below(5) as usize] };
        s += &format!(" {} {} {}", hex(&g.rng.pick(&p.policies[..3])[..]), hex(name), amt);
    }
    s += &match g.rng.below(8) {
        0..=3 => " none".to_string(),
        4 => format!(" hash {}", hex(&g.rng.bytes(32))),
        5 if g.rng.chance(1, 4) => format!(" hash {}", hex(&g.rng.bytes(31))),
        _ => { let d = if g.rng.chance(1, 12) { DATA[7 + g.rng.below(2) as usize] } else { DATA[g.rng.below(7) as usize] }; format!(" inline {} {}", d.0, data_ok(d.0) as u8) }
    };
    s += &match g.rng.below(8) {
        0..=4 => " none".to_string(),
        5 => { let n = if g.rng.chance(1, 8) { NATIVE[3] } else { NATIVE[g.rng.below(3) as usize] }; format!(" native {} {}", n.0, native_ok(n.0) as u8) }
        _ => format!(" v{} {} 1", g.rng.range(1, 3), g.rng.pick(&PLUTUS)),
    };
    s
}

pub fn generate(g: &mut Gen) {
    let p = pools();
    for case in 0..g.cases {
        let mut ops: Vec<String> = vec![];
        let nh = g.rng.range(1, 5) as usize;          // how many distinct tx hashes this case draws from
        let bad_rd = g.rng.below(8);                  // at most one kind of redeemer defect per case: 0..4 none, 5 ex-units, 6 data, 7 target
        let rich = g.rng.chance(2, 3);
        let inp = |g: &mut Gen| format!("{}:{}", hex(&p.hashes[g.rng.below(nh as u64) as usize]), if g.rng.chance(2, 3) { g.rng.below(3) } else { *g.rng.pick(&p.idx) });
        let mut staged_inputs: Vec<String> = vec![];
        let mut minted: Vec<usize> = vec![];
        let len = if g.rng.chance(1, 10) { g.rng.range(40, 90) } else { g.rng.range(3, 30) };
        // a transaction needs inputs/outputs to be interesting: seed a few
        for _ in 0..g.rng.range(1, 4) { let i = inp(g); staged_inputs.push(i.clone()); ops.push(format!("input {i}")); }
        for _ in 0..len {
            let r = g.rng.below(if rich { 40 } else { 22 });
            let line = match r {
                0..=3 => { let i = if g.rng.chance(1, 5) && !staged_inputs.is_empty() { g.rng.pick(&staged_inputs).clone() } else { inp(g) }; staged_inputs.push(i.clone()); format!("input {i}") }
                4 => format!("rminput {}", if !staged_inputs.is_empty() && g.rng.chance(2, 3) { g.rng.pick(&staged_inputs).clone() } else { inp(g) }),
                5..=7 => format!("output {}", gen_output(g, &p)),
                8 => format!("rmoutput {}", g.rng.below(4)),
                9 => format!("fee {}", g.rng.u64_edgy()),
                10..=13 => {
                    let pi = g.rng.below(3) as usize; minted.push(pi);
                    let q: i64 = match g.rng.below(14) { 0 => 0, 1 => i64::MAX, 2 => i64::MIN, 3 => -5, 4 => 5, 5 => -1, 6 => 1, _ => g.rng.range(1, 50) as i64 * if g.rng.chance(1, 3) { -1 } else { 1 } };
                    let name = if g.rng.chance(1, 30) { &p.names[5] } else { &p.names[g.rng.below(3) as usize] };
                    format!("mint {} {} {}", hex(&p.policies[pi]), hex(name), q)
                }
                14 => format!("rmmint {} {}", hex(&g.rng.pick(&p.policies[..3])[..]), hex(&p.names[g.rng.below(3) as usize])),
                15 => if g.rng.chance(1, 2) { format!("validfrom {}", g.rng.u64_edgy()) } else { format!("invalidfrom {}", g.rng.u64_edgy()) },
                16 => g.rng.pick(&["clearfee", "clearvalidfrom", "clearinvalidfrom", "clearnetid", "clearcollout", "clearaux"]).to_string(),
                17 => format!("netid {}", if g.rng.chance(1, 6) { g.rng.range(2, 255) } else { g.rng.below(2) }),
                18 => format!("refin {}", inp(g)),
                19 => format!("collin {}", inp(g)),
                20 => format!("signer {}", hex(&g.rng.pick(&p.policies)[..])),
                21 => match g.rng.below(3) { 0 => format!("rmrefin {}", inp(g)), 1 => format!("rmcollin {}", inp(g)), _ => format!("rmsigner {}", hex(&g.rng.pick(&p.policies)[..])) },
                22..=27 => {
                    // redeemers: mostly pointing at something staged
                    let d = if bad_rd == 6 && g.rng.chance(1, 3) { DATA[7] } else { DATA[g.rng.below(7) as usize] };
                    let ex = if bad_rd == 5 && g.rng.chance(1, 3) { "none".to_string() } else { format!("some {} {}", g.rng.u64_edgy(), g.rng.u64_edgy()) };
                    if g.rng.chance(3, 5) {
                        let t = if bad_rd == 7 && g.rng.chance(1, 3) || staged_inputs.is_empty() { inp(g) } else { g.rng.pick(&staged_inputs).clone() };
                        format!("spendrd {} {} {} {}", t, d.0, data_ok(d.0) as u8, ex)
                    } else {
                        let pi = if bad_rd == 7 && g.rng.chance(1, 3) || minted.is_empty() { 3 } else { *g.rng.pick(&minted) };
                        format!("mintrd {} {} {} {}", hex(&p.policies[pi]), d.0, data_ok(d.0) as u8, ex)
                    }
                }
                28 => if g.rng.chance(1, 2) { format!("rmspendrd {}", inp(g)) } else { format!("rmmintrd {}", hex(&g.rng.pick(&p.policies)[..])) },
                29..=30 => {
                    let (k, b, ok) = match g.rng.below(4) {
                        0 => { let n = if g.rng.chance(1, 10) { NATIVE[3] } else { NATIVE[g.rng.below(3) as usize] }; ("native", n.0, native_ok(n.0)) }
                        v => (["v1", "v2", "v3"][v as usize - 1], *g.rng.pick(&PLUTUS), true),
                    };
                    let bytes = unhex(b).unwrap();
                    format!("script {} {} {} {}", k, b, ok as u8, hex(&*Hasher::<224>::hash_tagged(&bytes, kind_no(k))))
                }
                31 => { let (k, b) = (g.rng.range(1, 3) as u8, *g.rng.pick(&PLUTUS)); format!("rmscript {}", hex(&*Hasher::<224>::hash_tagged(&unhex(b).unwrap(), k))) }
                32..=33 => { let d = if g.rng.chance(1, 15) { DATA[7] } else { DATA[g.rng.below(7) as usize] }; format!("datum {} {} {}", d.0, data_ok(d.0) as u8, hex(&*Hasher::<256>::hash_cbor(&unhex(d.0).unwrap()))) }
                34 => { let d = DATA[g.rng.below(7) as usize]; let h = hex(&*Hasher::<256>::hash_cbor(&unhex(d.0).unwrap())); if g.rng.chance(1, 2) { format!("rmdatum {} {}", d.0, h) } else { format!("rmdatumhash {h}") } }
                35..=36 => { let k = ["native", "v1", "v2", "v3"][g.rng.below(4) as usize]; let n = g.rng.below(4); format!("addlang {} {}{}", k, n, (0..n).map(|_| format!(" {}", g.rng.below(100000) as i64 - 500)).collect::<String>()) }
                37 => { let a = AUX[g.rng.below(4) as usize]; format!("aux {} {}", a.0, aux_ok(a.0) as u8) }
                38 => format!("collout {}", gen_output(g, &p)),
                _ => "build".to_string(),
            };
            ops.push(line);
        }
        ops.push("build".into());
        if case % 7 == 0 { ops.push(format!("input {}", inp(g))); ops.push("build".into()); }
        g.case(ops);
    }
}
