//! stream `flat` — C01 (round trip of value sequences at every bit offset) and, through
//! `flatdec.rs`, C02 (decoder totality): the real `pallas_codec::flat` Encoder/Decoder driven op
//! by op, with independent oracles (expected-value queue for the round trip, "no panic" for the
//! decoder entry points).
use crate::fw::*;
use pallas_codec::flat::de::{Decoder, Error as DErr};
use pallas_codec::flat::en::{Encode, Encoder};
use pallas_codec::flat::filler::Filler;
use std::collections::VecDeque;

pub const NAME: &str = "flat";

#[derive(Clone, Debug, PartialEq)]
pub enum Val {
    Bool(bool),
    U8(u8),
    Bits(usize, u8),
    Word(usize),
    Int(isize),
    Char(u32),
    Bytes(Vec<u8>),
    Utf8(Vec<u8>),
    Bools(Vec<bool>),
    Str(Vec<u32>),
    Unit,
}

impl Val {
    pub fn kind(&self) -> String {
        match self {
            Val::Bool(_) => "bool".into(),
            Val::U8(_) => "u8".into(),
            Val::Bits(n, _) => format!("bits{n}"),
            Val::Word(_) => "word".into(),
            Val::Int(_) => "int".into(),
            Val::Char(_) => "char".into(),
            Val::Bytes(_) => "bytes".into(),
            Val::Utf8(_) => "utf8".into(),
            Val::Bools(_) => "bools".into(),
            Val::Str(_) => "string".into(),
            Val::Unit => "unit".into(),
        }
    }
    pub fn show(&self) -> String {
        match self {
            Val::Bool(b) => b.to_string(),
            Val::U8(x) => x.to_string(),
            Val::Bits(_, x) => x.to_string(),
            Val::Word(x) => x.to_string(),
            Val::Int(x) => x.to_string(),
            Val::Char(x) => x.to_string(),
            Val::Bytes(b) | Val::Utf8(b) => hex(b),
            Val::Bools(l) => show_bools(l),
            Val::Str(cs) => format!("[{}]", cs.iter().map(|c| c.to_string()).collect::<Vec<_>>().join(" ")),
            Val::Unit => "()".into(),
        }
    }
    /// the `e.<op> <args>` line that encodes this value
    pub fn enc_op(&self) -> String {
        match self {
            Val::Bits(n, v) => format!("e.bits {n} {v}"),
            Val::Unit => "e.filler".into(),
            Val::Str(cs) => format!("e.string {}", cs.iter().map(|c| c.to_string()).collect::<Vec<_>>().join(" ")).trim_end().to_string(),
            v => format!("e.{} {}", v.kind(), v.show()),
        }
    }
    /// the `d.<op>` line that decodes a value of this kind
    pub fn dec_op(&self) -> String {
        match self {
            Val::Bits(n, _) => format!("d.bits {n}"),
            Val::Unit => "d.filler".into(),
            v => format!("d.{}", v.kind()),
        }
    }
}

pub fn show_bools(l: &[bool]) -> String {
    if l.is_empty() { "-".into() } else { l.iter().map(|b| if *b { '1' } else { '0' }).collect() }
}
fn parse_bools(s: &str) -> Option<Vec<bool>> {
    if s == "-" { return Some(vec![]); }
    s.chars().map(|c| match c { '0' => Some(false), '1' => Some(true), _ => None }).collect()
}

fn err_class(e: &DErr) -> String {
    match e {
        DErr::EndOfBuffer => "eob".into(),
        DErr::BufferNotByteAligned => "align".into(),
        DErr::IncorrectNumBits => "numbits".into(),
        DErr::NotEnoughBytes(n) => format!("bytes {n}"),
        DErr::NotEnoughBits(n) => format!("bits {n}"),
        DErr::DecodeUtf8(_) => "utf8".into(),
        DErr::DecodeChar(c) => format!("char {c}"),
        DErr::Message(_) => "msg".into(),
        _ => "other".into(),
    }
}

// ------------------------------------------------------------------------------------ generators

pub fn gen_u8(r: &mut Rng) -> u8 {
    match r.below(3) { 0 => *r.pick(&[0u8, 1, 2, 127, 128, 129, 254, 255, 0x55, 0xaa]), _ => r.next() as u8 }
}
pub fn gen_int(r: &mut Rng) -> isize {
    const B: [i64; 16] = [0, 1, -1, 63, 64, -64, -65, 127, 128, -128, -129, i64::MAX, i64::MIN, i64::MAX - 1, i64::MIN + 1, 1 << 32];
    match r.below(4) {
        0 => *r.pick(&B) as isize,
        1 => (r.below(600) as i64 - 300) as isize,
        2 => { let v = (r.next() >> r.below(64)) as i64; (if r.chance(1, 2) { v.wrapping_neg() } else { v }) as isize }
        _ => r.next() as i64 as isize,
    }
}
pub fn gen_char(r: &mut Rng) -> u32 {
    const B: [u32; 14] = [0, 1, 0x7f, 0x80, 0x3fff, 0x4000, 0x7ff, 0x800, 0xd7ff, 0xe000, 0xffff, 0x10000, 0x10ffff, 0x1fffff & 0x10fffe];
    loop {
        let c = match r.below(3) { 0 => *r.pick(&B), 1 => r.below(0x250) as u32, _ => r.below(0x110000) as u32 };
        if char::from_u32(c).is_some() { return c; }
    }
}
pub fn gen_bytes_len(r: &mut Rng) -> usize {
    match r.below(16) {
        0 => 0,
        1..=7 => r.range(1, 20) as usize,
        8..=10 => r.range(254, 257) as usize,
        11..=12 => r.range(509, 511) as usize,
        13 => r.range(764, 766) as usize,
        14 => r.range(21, 253) as usize,
        _ => r.range(258, 1000) as usize,
    }
}
pub fn gen_utf8(r: &mut Rng) -> Vec<u8> {
    let target = match r.below(8) { 0 => 0, 1..=4 => r.range(1, 16) as usize, 5 => r.range(250, 260) as usize, _ => r.range(17, 600) as usize };
    let mut s = String::new();
    while s.len() < target {
        s.push(char::from_u32(gen_char(r)).unwrap());
    }
    s.into_bytes()
}
pub fn gen_val(r: &mut Rng, big: bool) -> Val {
    match r.below(if big { 18 } else { 14 }) {
        0 | 1 => Val::Bool(r.chance(1, 2)),
        2 | 3 => Val::U8(gen_u8(r)),
        4 | 5 => { let n = r.range(1, 8) as usize; Val::Bits(n, (gen_u8(r) as u16 & ((1u16 << n) - 1)) as u8) }
        6 | 7 => Val::Word(r.u64_edgy() as usize),
        8 | 9 => Val::Int(gen_int(r)),
        10 | 11 => Val::Char(gen_char(r)),
        12 => if r.chance(1, 3) { let n = r.below(8) as usize; Val::Str((0..n).map(|_| gen_char(r)).collect()) }
              else { let n = r.below(20) as usize; Val::Bools((0..n).map(|_| r.chance(1, 2)).collect()) },
        13 => Val::Bytes({ let n = r.below(6) as usize; r.bytes(n) }),
        14 | 15 => { let n = gen_bytes_len(r); Val::Bytes(r.bytes(n)) }
        _ => Val::Utf8(gen_utf8(r)),
    }
}

/// boundary values per kind (thorough tier: × every start offset)
pub fn boundary_vals() -> Vec<Val> {
    let mut v = vec![Val::Bool(false), Val::Bool(true)];
    for x in [0u8, 1, 127, 128, 255, 0x55, 0xaa] { v.push(Val::U8(x)); }
    for n in 1..=8usize { for x in [0u16, 1, (1 << n) - 1, (1 << n) / 2, 0x55 & ((1 << n) - 1)] { v.push(Val::Bits(n, x as u8)); } }
    for x in [0usize, 1, 127, 128, 16383, 16384, (1 << 32) - 1, 1 << 32, (1 << 56) - 1, 1 << 56, (1 << 63) - 1, 1 << 63, usize::MAX - 1, usize::MAX] { v.push(Val::Word(x)); }
    for x in [0isize, 1, -1, 63, 64, -64, -65, isize::MAX, isize::MIN, isize::MAX - 1, isize::MIN + 1] { v.push(Val::Int(x)); }
    for x in [0u32, 0x7f, 0x80, 0x7ff, 0x800, 0xd7ff, 0xe000, 0xffff, 0x10000, 0x10ffff] { v.push(Val::Char(x)); }
    for n in [0usize, 1, 2, 254, 255, 256, 257, 509, 510, 511, 765, 766] { v.push(Val::Bytes((0..n).map(|i| (i * 7 + n) as u8).collect())); }
    for s in ["", "a", "é", "€", "𝄞", "a€𝄞é"] { v.push(Val::Utf8(s.as_bytes().to_vec())); }
    v.push(Val::Utf8("€".repeat(85).into_bytes()));
    v.push(Val::Utf8("𝄞".repeat(64).into_bytes()));
    for l in [vec![], vec![true], vec![false], vec![true, false, true, true, false, false, true, false, true]] { v.push(Val::Bools(l)); }
    for l in [vec![], vec![0x61], vec![0x10ffff, 0, 0x80, 0xe000]] { v.push(Val::Str(l)); }
    v
}

pub fn roundtrip_case(prefix_bools: usize, vals: &[Val]) -> Vec<String> {
    let mut all: Vec<Val> = (0..prefix_bools).map(|i| Val::Bool(i % 2 == 0)).collect();
    all.extend(vals.iter().cloned());
    let mut ops: Vec<String> = all.iter().map(|v| v.enc_op()).collect();
    ops.push("fin".into());
    ops.extend(all.iter().map(|v| v.dec_op()));
    ops.push("d.filler".into());
    ops.push("d.end".into());
    // the same values through the top-level `flat::encode` / `flat::decode` (always start at bit 0)
    for v in vals.iter().take(4) { if let Some(op) = top_rt_op(v) { ops.push(op); } }
    ops
}

pub fn gen_dec_op(r: &mut Rng) -> String {
    match r.below(14) {
        0 => "d.bool".into(),
        1 => "d.u8".into(),
        2 => format!("d.bits {}", r.below(10)),
        3 | 4 => "d.word".into(),
        5 => "d.int".into(),
        6 => "d.char".into(),
        7 | 8 => "d.bytes".into(),
        9 => "d.utf8".into(),
        10 => "d.bools".into(),
        11 => if r.chance(1, 2) { "d.filler".into() } else { "d.string".into() },
        12 => format!("d.bits {}", r.range(1, 8)),
        _ => "d.end".into(),
    }
}

pub fn generate(g: &mut Gen) {
    let mut made = 0usize;
    if g.thorough() {
        // exhaustive: boundary value × start offset 0..7, alone and followed by a second value
        let bv = boundary_vals();
        for off in 0..8 {
            for v in &bv {
                g.case(roundtrip_case(off, std::slice::from_ref(v)));
                let w = bv[(g.rng.below(bv.len() as u64)) as usize].clone();
                g.case(roundtrip_case(off, &[v.clone(), w]));
                made += 2;
            }
        }
    }
    let mut i = 0usize;
    while made < g.cases {
        made += 1;
        i += 1;
        if i % 10 == 0 {
            // free-form: any encoder ops (incl. ill-formed `bits`, explicit fillers), then any decoder ops
            let n = g.rng.range(0, 12);
            let mut ops = vec![];
            for _ in 0..n {
                ops.push(match g.rng.below(6) {
                    0 => format!("e.bits {} {}", g.rng.below(11), gen_u8(&mut g.rng)),
                    1 => "e.filler".to_string(),
                    _ => gen_val(&mut g.rng, false).enc_op(),
                });
            }
            ops.push("fin".into());
            for _ in 0..g.rng.range(0, 12) { ops.push(gen_dec_op(&mut g.rng)); }
            g.case(ops);
            continue;
        }
        let n = match g.rng.below(8) { 0 => g.rng.range(13, 64), 1 => 0, _ => g.rng.range(1, 12) } as usize;
        let big = n <= 12;
        let vals: Vec<Val> = (0..n).map(|_| gen_val(&mut g.rng, big)).collect();
        g.case(roundtrip_case(i % 8, &vals));
    }
}

// ------------------------------------------------------------------------------------ running

/// oracle state of one case
pub struct Oracle {
    pub expected: VecDeque<Val>,
    pub armed: bool,
    pub fin_done: bool,
    pub filler_done: bool,
    pub matched: usize,
    pub unaligned_starts: usize,
    pub dec_ok: usize,
    pub dec_err: usize,
    pub at_end_ok: bool,
}

fn wf_bits(n: usize, v: u8) -> bool { (1..=8).contains(&n) && (v as u16) < (1u16 << n) }

fn parse_enc(op: &[String]) -> Option<Val> {
    let a = |i: usize| op.get(i).map(|s| s.as_str());
    Some(match op[0].as_str() {
        "e.bool" => Val::Bool(match a(1)? { "true" | "1" => true, "false" | "0" => false, _ => return None }),
        "e.u8" => Val::U8(a(1)?.parse().ok()?),
        "e.bits" => Val::Bits(a(1)?.parse().ok()?, a(2)?.parse().ok()?),
        "e.word" => Val::Word(a(1)?.parse().ok()?),
        "e.int" => Val::Int(a(1)?.parse().ok()?),
        "e.char" => { let c: u32 = a(1)?.parse().ok()?; char::from_u32(c)?; Val::Char(c) }
        "e.bytes" => Val::Bytes(unhex(a(1)?)?),
        "e.utf8" => { let b = unhex(a(1)?)?; std::str::from_utf8(&b).ok()?; Val::Utf8(b) }
        "e.bools" => Val::Bools(parse_bools(a(1)?)?),
        "e.filler" => Val::Unit,
        "e.string" => { let mut cs = vec![]; for t in &op[1..] { let c: u32 = t.parse().ok()?; char::from_u32(c)?; cs.push(c); } Val::Str(cs) }
        _ => return None,
    })
}

/// Ok(()) | Err(true) = Error::BufferNotByteAligned
fn do_enc(enc: &mut Encoder, v: &Val) -> Result<(), ()> {
    match v {
        Val::Bool(b) => { enc.bool(*b); Ok(()) }
        Val::U8(x) => enc.u8(*x).map(|_| ()).map_err(|_| ()),
        Val::Bits(n, x) => { enc.bits(*n as i64, *x); Ok(()) }
        Val::Word(w) => { enc.word(*w); Ok(()) }
        Val::Int(i) => { enc.integer(*i); Ok(()) }
        Val::Char(c) => { enc.char(char::from_u32(*c).unwrap()); Ok(()) }
        Val::Bytes(b) => enc.bytes(b).map(|_| ()).map_err(|_| ()),
        Val::Utf8(b) => enc.utf8(std::str::from_utf8(b).unwrap()).map(|_| ()).map_err(|_| ()),
        Val::Bools(l) => enc.encode_list_with(l, <bool as Encode>::encode).map(|_| ()).map_err(|_| ()),
        Val::Str(cs) => { let s: String = cs.iter().map(|c| char::from_u32(*c).unwrap()).collect(); enc.string(&s); Ok(()) }
        Val::Unit => enc.encode(Filler::FillerEnd).map(|_| ()).map_err(|_| ()),
    }
}

fn do_dec(d: &mut Decoder, op: &[String]) -> Option<Result<Val, DErr>> {
    Some(match op[0].as_str() {
        "d.bool" => d.bool().map(Val::Bool),
        "d.u8" => d.u8().map(Val::U8),
        "d.bits" => { let n: usize = op.get(1)?.parse().ok()?; d.bits8(n).map(|x| Val::Bits(n, x)) }
        "d.word" => d.word().map(Val::Word),
        "d.int" => d.integer().map(Val::Int),
        "d.char" => d.char().map(|c| Val::Char(c as u32)),
        "d.bytes" => d.bytes().map(Val::Bytes),
        "d.utf8" => d.utf8().map(|s| Val::Utf8(s.into_bytes())),
        "d.bools" => d.decode_list_with(|d| d.bool()).map(Val::Bools),
        "d.string" => d.string().map(|s| Val::Str(s.chars().map(|c| c as u32).collect())),
        "d.filler" => d.filler().map(|_| Val::Unit),
        _ => return None,
    })
}

fn top_err(e: &DErr) -> String {
    // the `err` reply of a top-level decode carries the class only (`decode` returns no cursor)
    err_class(e)
}

/// `t.rt <kind> <value>` / `t.dec <kind> <hex>`: the top-level `flat::encode` / `flat::decode` of mod.rs
fn run_top(op: &[String], out: &mut Out, o: &mut Oracle) {
    use pallas_codec::flat::{decode, encode};
    let (Some(kind), Some(arg)) = (op.get(1), op.get(2)) else { out.reply("bad-op".into()); return; };
    macro_rules! rt {
        ($t:ty, $v:expr, $show:expr) => {{
            let v: $t = $v;
            match guard(|| encode(&v)) {
                None => { out.viol(format!("enc-panic-top-{kind}"), format!("flat::encode panicked on {arg}")); out.panic(); }
                Some(Err(_)) => out.err("align"),
                Some(Ok(bytes)) => match guard(|| decode::<$t>(&bytes)) {
                    None => { out.viol(format!("dec-panic-top-{kind}"), format!("flat::decode panicked on {}", hex(&bytes))); out.panic(); }
                    Some(Ok(back)) => {
                        if back != v { out.viol(format!("roundtrip-top-{kind}"), format!("encode({arg}) = {} decodes to {}", hex(&bytes), $show(&back))); }
                        else { o.matched += 1; out.cov(format!("rt-top {kind}")); }
                        out.ok(format!("{} {}", hex(&bytes), $show(&back)));
                    }
                    Some(Err(e)) => {
                        out.viol(format!("roundtrip-top-{kind}"), format!("encode({arg}) = {} does not decode: {}", hex(&bytes), top_err(&e)));
                        out.ok(format!("{} err {}", hex(&bytes), top_err(&e)));
                    }
                },
            }
        }};
    }
    macro_rules! dec {
        ($t:ty, $show:expr) => {{
            let Some(bytes) = unhex(arg) else { out.reply("bad-op".into()); return; };
            match guard(|| decode::<$t>(&bytes)) {
                None => { out.viol(format!("dec-panic-top-{kind}"), format!("flat::decode::<{}> panicked on {}", stringify!($t), arg)); out.panic(); }
                Some(Ok(v)) => { o.dec_ok += 1; out.ok($show(&v)); }
                Some(Err(e)) => { o.dec_err += 1; out.err(top_err(&e)); }
            }
        }};
    }
    let parse_fail = |out: &mut Out| out.reply("bad-op".into());
    match (op[0].as_str(), kind.as_str()) {
        ("t.rt", "bool") => match arg.as_str() { "true" => rt!(bool, true, |b: &bool| b.to_string()), "false" => rt!(bool, false, |b: &bool| b.to_string()), _ => parse_fail(out) },
        ("t.rt", "u8") => match arg.parse::<u8>() { Ok(x) => rt!(u8, x, |b: &u8| b.to_string()), _ => parse_fail(out) },
        ("t.rt", "word") => match arg.parse::<usize>() { Ok(x) => rt!(usize, x, |b: &usize| b.to_string()), _ => parse_fail(out) },
        ("t.rt", "int") => match arg.parse::<isize>() { Ok(x) => rt!(isize, x, |b: &isize| b.to_string()), _ => parse_fail(out) },
        ("t.rt", "char") => match arg.parse::<u32>().ok().and_then(char::from_u32) { Some(x) => rt!(char, x, |b: &char| (*b as u32).to_string()), _ => parse_fail(out) },
        ("t.rt", "bytes") => match unhex(arg) { Some(x) => rt!(Vec<u8>, x, |b: &Vec<u8>| hex(b)), _ => parse_fail(out) },
        ("t.rt", "utf8") => match unhex(arg).and_then(|b| String::from_utf8(b).ok()) { Some(x) => rt!(String, x, |b: &String| hex(b.as_bytes())), _ => parse_fail(out) },
        ("t.dec", "bool") => dec!(bool, |b: &bool| b.to_string()),
        ("t.dec", "u8") => dec!(u8, |b: &u8| b.to_string()),
        ("t.dec", "word") => dec!(usize, |b: &usize| b.to_string()),
        ("t.dec", "int") => dec!(isize, |b: &isize| b.to_string()),
        ("t.dec", "char") => dec!(char, |b: &char| (*b as u32).to_string()),
        ("t.dec", "bytes") => dec!(Vec<u8>, |b: &Vec<u8>| hex(b)),
        ("t.dec", "utf8") => dec!(String, |b: &String| hex(b.as_bytes())),
        _ => parse_fail(out),
    }
}

pub fn top_rt_op(v: &Val) -> Option<String> {
    match v {
        Val::Bool(_) | Val::U8(_) | Val::Word(_) | Val::Int(_) | Val::Char(_) | Val::Bytes(_) | Val::Utf8(_) => Some(format!("t.rt {} {}", v.kind(), v.show())),
        _ => None,
    }
}

pub fn run_case(case: &Case, out: &mut Out) {
    let o = run_ops(case, out);
    if o.at_end_ok && o.matched >= 2 && o.unaligned_starts >= 1 { out.nontrivial(); }
}

/// Runs one case; returns the oracle state so each stream can apply its own non-triviality rule.
pub fn run_ops(case: &Case, out: &mut Out) -> Oracle {
    let mut enc = Encoder::new();
    let mut o = Oracle { expected: VecDeque::new(), armed: true, fin_done: false, filler_done: false, matched: 0,
        unaligned_starts: 0, dec_ok: 0, dec_err: 0, at_end_ok: false };
    let mut dead = false;
    let mut decbuf: Option<Vec<u8>> = None;
    let (mut dpos, mut dused) = (0usize, 0i64);
    let ops = &case.ops;
    let mut i = 0usize;
    while i < ops.len() {
        let op = &ops[i];
        if dead { out.reply("dead".into()); i += 1; continue; }
        let name = op[0].as_str();
        if name == "fin" || name == "load" {
            if name == "fin" {
                let before = enc.buffer.len();
                if guard_mut(|| { let _ = enc.encode(Filler::FillerEnd); }).is_none() {
                    out.viol("enc-panic-filler", "Encoder::filler panicked"); out.panic(); dead = true; i += 1; continue;
                }
                out.ok(format!("{} {}", enc.buffer.len(), hex(&enc.buffer[before..])));
                decbuf = Some(enc.buffer.clone());
                o.fin_done = true;
            } else {
                let Some(b) = op.get(1).and_then(|s| unhex(s)) else { out.reply("bad-op".into()); i += 1; continue; };
                out.ok(b.len().to_string());
                decbuf = Some(b);
                o.armed = false;
            }
            dpos = 0; dused = 0;
            i += 1;
            continue;
        }
        if name.starts_with("t.") {
            run_top(op, out, &mut o);
            i += 1;
            continue;
        }
        if name.starts_with("e.") {
            let Some(v) = parse_enc(op) else { out.reply("bad-op".into()); i += 1; continue; };
            let wf = match &v { Val::Bits(n, x) => wf_bits(*n, *x), Val::Unit => false, _ => true };
            if !wf || o.fin_done { o.armed = false; }
            let before = enc.buffer.len();
            match guard_mut(|| do_enc(&mut enc, &v)) {
                None => {
                    if wf { out.viol(format!("enc-panic-{}", v.kind()), format!("encoder panicked on `{}`", op.join(" "))); }
                    out.cov("enc-panic");
                    out.panic(); dead = true;
                }
                Some(Err(())) => out.err("align"),
                Some(Ok(())) => {
                    out.ok(format!("{} {}", enc.buffer.len(), hex(&enc.buffer[before..])));
                    if o.armed { o.expected.push_back(v); }
                }
            }
            i += 1;
            continue;
        }
        // decoder segment: one `Decoder` for all consecutive d.* ops
        let Some(buf) = decbuf.as_ref() else { out.reply("bad-op".into()); i += 1; continue; };
        let mut d = Decoder::new(buf);
        d.pos = dpos; d.used_bits = dused;
        while i < ops.len() && ops[i][0].starts_with("d.") && !dead {
            let op = &ops[i];
            i += 1;
            if op[0] == "d.end" {
                out.ok(format!("{} {} {}", d.pos, d.used_bits, buf.len()));
                if o.armed && o.filler_done && o.expected.is_empty() {
                    if d.pos == buf.len() && d.used_bits == 0 { o.at_end_ok = true; }
                    else { out.viol("not-at-end", format!("after decoding everything pos={} used_bits={} len={}", d.pos, d.used_bits, buf.len())); }
                }
                continue;
            }
            let start_used = d.used_bits;
            let r = guard_mut(|| do_dec(&mut d, op));
            match r {
                None => {
                    out.viol(format!("dec-panic-{}", op[0].trim_start_matches("d.")),
                        format!("`{}` panicked at pos={} used_bits={} on buffer {}", op.join(" "), d.pos, start_used, hex(&buf[..buf.len().min(80)])));
                    out.panic(); dead = true;
                }
                Some(None) => out.reply("bad-op".into()),
                Some(Some(res)) => {
                    match &res {
                        Ok(v) => { o.dec_ok += 1; out.ok(format!("{} {} {}", v.show(), d.pos, d.used_bits)); }
                        Err(e) => { o.dec_err += 1; out.err(format!("{} {} {}", err_class(e), d.pos, d.used_bits)); }
                    }
                    // round-trip oracle
                    if o.armed && o.fin_done {
                        if op[0] == "d.filler" && o.expected.is_empty() && !o.filler_done {
                            if res.is_ok() { o.filler_done = true; } else { out.viol("roundtrip-filler", "final filler did not decode"); o.armed = false; }
                        } else if let Some(want) = o.expected.front() {
                            if want.dec_op() == op.join(" ") {
                                let want = o.expected.pop_front().unwrap();
                                match &res {
                                    Ok(got) if *got == want => {
                                        o.matched += 1;
                                        if start_used != 0 && !matches!(want, Val::Bool(_)) { o.unaligned_starts += 1; }
                                        out.cov(format!("rt {}@{}", if matches!(want, Val::Bits(..)) { "bits".to_string() } else { want.kind() }, start_used));
                                    }
                                    Ok(got) => { out.viol(format!("roundtrip-{}", want.kind()), format!("encoded {} decoded {} (start bit {})", want.show(), got.show(), start_used)); o.armed = false; }
                                    Err(e) => { out.viol(format!("roundtrip-{}", want.kind()), format!("encoded {} decoder error {} (start bit {})", want.show(), err_class(e), start_used)); o.armed = false; }
                                }
                            } else { o.armed = false; }
                        } else { o.armed = false; }
                    }
                }
            }
        }
        dpos = d.pos; dused = d.used_bits;
    }
    o
}
