//! stream `p2p_promo` — C27: the real `InitiatorBehavior` under include/ban/demote commands,
//! housekeeping passes and connection/handshake/error/violation events, against the Lean model
//! (`Model/P2PInitiator.lean`). The oracle checks the property itself on the implementation:
//! the four promotion sets stay pairwise disjoint and within the configured limits, and no
//! `Connect(p)` is emitted once `p` was banned (seen in `banned_peers`, or named by a BanPeer command).
use crate::fw::*;
#[path = "../fixtures/p2p.rs"]
mod p2p;
use p2p::{Init, OutItem, Step};
use std::collections::HashSet;

pub const NAME: &str = "p2p_promo";

fn bad_msg(g: &mut Gen) -> String {
    // messages that are violations in the default per-protocol states
    g.rng.pick(&["ka.resp:7", "bf.block:3", "cs.fwd:1", "ps.peers:-", "hs.refuse", "tx.replyids", "ln.votes", "lf.block"]).to_string()
}

fn gen_case(g: &mut Gen, peers: u64, len: usize, small: bool) -> Vec<String> {
    let mut ops = vec![];
    let (mp, mw, mh, me) = if small {
        (g.rng.range(1, 4), g.rng.range(1, 2), g.rng.range(1, 2), g.rng.range(0, 2))
    } else {
        (g.rng.range(2, peers + 2), g.rng.range(1, 6), g.rng.range(1, 4), g.rng.range(0, 3))
    };
    ops.push(format!("cfg {mp} {mw} {mh} {me}"));
    while ops.len() < len + 1 {
        let p = g.rng.below(peers);
        match g.rng.below(40) {
            0..=5 => ops.push(format!("include {p}")),
            6..=12 => ops.push(if g.rng.chance(1, 5) { "idle".into() } else { "hk".into() }),
            13..=16 => ops.push(format!("connected {p}")),
            17..=19 => {
                // a whole handshake for p
                ops.push(format!("sent {p} hs.propose"));
                let v = *g.rng.pick(&[13u64, 13, 14, 15]);
                let ps = *g.rng.pick(&["1", "1", "0", "x"]);
                ops.push(format!("recv {p} hs.accept:{v}:{ps}"));
            }
            20 => ops.push(format!("sent {p} hs.propose")),
            21 => ops.push(format!("recv {p} hs.accept:13:1")),
            22..=23 => ops.push(format!("ban {p}")),
            24..=25 => ops.push(format!("demote {p}")),
            26..=28 => ops.push(format!("disconnected {p}")),
            29..=31 => ops.push(format!("error {p}")),
            32..=33 => ops.push(format!("recv {p} {}", bad_msg(g))),
            34 => ops.push(format!("sent {p} {}", bad_msg(g))),
            35 => {
                // peer sharing round that discovers peers
                let a = g.rng.below(peers);
                let b = g.rng.below(peers + 3);
                ops.push(format!("sent {p} ps.req:10"));
                ops.push(format!("recv {p} ps.peers:{a},{b}"));
            }
            36 => {
                if g.rng.chance(1, 2) { ops.push("startsync".into()); } else {
                    // whole life cycle up to (possibly) hot
                    for o in [format!("include {p}"), "hk".to_string(), format!("connected {p}"), format!("sent {p} hs.propose"),
                              format!("recv {p} hs.accept:13:1"), "hk".to_string()] { ops.push(o); }
                }
            }
            37 => ops.push(format!("continuesync {p}")),
            38 => ops.push(format!("sent {p} ka.keepalive:65535")),
            _ => ops.push(format!("recv {p} ka.resp:65535")),
        }
    }
    ops
}

/// the design's two recorded witnesses (§6 #14, #15), always part of the run
fn witnesses(g: &mut Gen) {
    g.case(["cfg 4 2 2 1", "include 1", "hk", "include 1", "hk"].map(String::from));
    g.case(["cfg 4 2 2 1", "include 1", "hk", "connected 1", "ban 1", "hk", "disconnected 1", "include 1", "hk"].map(String::from));
    g.case(["cfg 4 2 2 1", "ban 2", "include 2", "hk"].map(String::from));
}

pub fn generate(g: &mut Gen) {
    witnesses(g);
    if g.thorough() {
        // exhaustive short histories: 2 peers, limits 1/1/1, 13-symbol alphabet, length <= 4
        let mut alpha: Vec<String> = vec!["hk".into()];
        for p in 0..2 {
            for s in ["include", "connected", "ban", "demote", "disconnected", "error"] { alpha.push(format!("{s} {p}")); }
        }
        alpha.push("sent 0 hs.propose".into());
        alpha.push("recv 0 hs.accept:13:1".into());
        alpha.push("recv 1 ka.resp:7".into());
        let n = alpha.len();
        for len in 1..=4usize {
            let total = n.pow(len as u32);
            for k in 0..total {
                let mut ops = vec!["cfg 2 1 1 0".to_string(), "include 0".to_string(), "hk".to_string()];
                let mut x = k;
                for _ in 0..len { ops.push(alpha[x % n].clone()); x /= n; }
                ops.push("hk".into());
                g.case(ops);
            }
        }
    }
    for i in 0..g.cases {
        let ops = match i % 4 {
            0 => gen_case(g, 3, 8, true),
            1 => { let l = g.rng.range(10, 40) as usize; gen_case(g, 3, l, true) }
            2 => { let l = g.rng.range(20, 80) as usize; gen_case(g, 6, l, false) }
            _ => { let l = if g.rng.chance(1, 4) { 200 } else { g.rng.range(30, 120) as usize }; gen_case(g, 20, l, false) }
        };
        g.case(ops);
    }
}

pub fn run_case(case: &Case, out: &mut Out) {
    let mut it: Option<Init> = None;
    let mut banned_set: HashSet<u64> = HashSet::new();   // seen in `banned_peers`
    let mut banned_cmd: HashSet<u64> = HashSet::new();   // named by a BanPeer command
    let (mut saw_hot, mut saw_ban, mut saw_connect) = (false, false, false);
    for op in &case.ops {
        if op[0] == "cfg" && op.len() == 5 {
            let v: Vec<u64> = op[1..].iter().filter_map(|x| x.parse().ok()).collect();
            if v.len() != 4 { out.reply("bad-op".into()); continue; }
            let i = Init::new(v[0] as usize, v[1] as usize, v[2] as usize, v[3] as u32);
            out.ok(i.state_text(&[]));
            it = Some(i);
            continue;
        }
        let Some(i) = it.as_mut() else { out.reply("bad-op".into()); continue; };
        match i.exec(op) {
            Step::Bad => out.reply("bad-op".into()),
            Step::Dead => out.reply("dead".into()),
            Step::Panic => { out.cov("panic"); out.panic(); }
            Step::Ok { annot, outs } => {
                // ---- the property, evaluated on the implementation ----
                for o in &outs {
                    if let OutItem::Connect(p) = o {
                        saw_connect = true;
                        if banned_set.contains(p) { out.viol("connect-after-ban set", format!("Connect({p}) after {p} was in banned_peers; op {:?}", op)); }
                        else if banned_cmd.contains(p) { out.viol("connect-after-ban cmd", format!("Connect({p}) after a BanPeer({p}) command; op {:?}", op)); }
                    }
                }
                if op[0] == "ban" { if let Ok(p) = op[1].parse::<u64>() { banned_cmd.insert(p); } }
                let sets = [('C', i.set('C')), ('W', i.set('W')), ('H', i.set('H')), ('B', i.set('B'))];
                for a in 0..4 { for b in (a + 1)..4 {
                    if let Some(x) = sets[a].1.iter().find(|x| sets[b].1.contains(x)) {
                        out.viol(format!("sets-overlap {}{}", sets[a].0, sets[b].0), format!("peer {x} in both after {:?}", op));
                    }
                } }
                let mut tracked: HashSet<u64> = HashSet::new();
                for k in 0..3 { tracked.extend(sets[k].1.iter().cloned()); }
                if sets[1].1.len() > i.max.1 { out.viol("limit warm", format!("{} > {}", sets[1].1.len(), i.max.1)); }
                if sets[2].1.len() > i.max.2 { out.viol("limit hot", format!("{} > {}", sets[2].1.len(), i.max.2)); }
                if tracked.len() > i.max.0 { out.viol("limit total", format!("{} > {}", tracked.len(), i.max.0)); }
                for p in &sets[3].1 { banned_set.insert(*p); }
                if !sets[2].1.is_empty() { saw_hot = true; }
                if !sets[3].1.is_empty() { saw_ban = true; }
                out.ok(format!("{}{}", annot, i.state_text(&outs)));
            }
        }
    }
    if saw_hot { out.cov("reached-hot"); }
    if saw_ban { out.cov("banned-some"); }
    if saw_connect { out.cov("connect-emitted"); }
    if saw_hot && saw_ban { out.nontrivial(); }
}
