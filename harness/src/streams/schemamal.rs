//! stream `schemamal` — C06, decoding of mutated encodings (not diffed line by line; see lib/props/C06.py `extra`).
//!   dec <Type> <hex>    as in stream `schema`
//! Encodings of generated values are damaged in ways that keep them well-formed CBOR but (mostly) mistyped —
//! a sub-item replaced by a foreign one, a definite array lengthened or shortened, a small uint (variant number,
//! map key) changed — or in ways that break well-formedness (byte flips, truncation). The check compares one
//! direction only: whenever the strict model decoder accepts, pallas must accept with the same value.
use crate::fw::*;
use super::schema::{head, item_end};
use super::schema::schema_traits::*;
use super::schema::schema_gen::{schema_dispatch, TYPE_NAMES};
use pallas_codec::minicbor;

pub const NAME: &str = "schemamal";

/// (start, end, major, additional info, value) of every item, depth first
fn spans(b: &[u8], p: usize, out: &mut Vec<(usize, usize, u8, u8, u64)>, depth: u32) -> Option<usize> {
    if depth > 256 { return None; }
    let (m, ai, v, q) = head(b, p)?;
    let e = item_end(b, p, depth)?;
    out.push((p, e, m, ai, v));
    match m {
        4 | 5 => {
            let mut q = q;
            if ai == 31 { while *b.get(q)? != 0xff { q = spans(b, q, out, depth + 1)?; } }
            else { for _ in 0..(if m == 4 { v } else { v * 2 }) { q = spans(b, q, out, depth + 1)?; } }
        }
        6 => { spans(b, q, out, depth + 1)?; }
        _ => {}
    }
    Some(e)
}

const POOL: [&[u8]; 16] = [&[0x00], &[0x17], &[0x18, 0xff], &[0x20], &[0xf6], &[0xf7], &[0xf5], &[0x80], &[0xa0], &[0x40], &[0x60],
    &[0x81, 0x00], &[0x9f, 0xff], &[0xd8, 0x1e, 0x82, 0x01, 0x02], &[0x1b, 0xff, 0xff, 0xff, 0xff, 0xff, 0xff, 0xff, 0xff], &[0x3b, 0xff, 0xff, 0xff, 0xff, 0xff, 0xff, 0xff, 0xff]];

pub fn mutate(b: &[u8], r: &mut Rng) -> Vec<u8> {
    let mut sp = vec![];
    let _ = spans(b, 0, &mut sp, 0);
    let mut out = b.to_vec();
    if b.is_empty() { return out; }
    match if sp.is_empty() { 0 } else { r.below(6) } {
        0 => { for _ in 0..r.range(1, 3) { let i = r.below(out.len() as u64) as usize; out[i] ^= 1 << r.below(8); } }
        1 => { out.truncate(r.below(b.len() as u64) as usize); }
        2 | 3 => { // a sub-item replaced by a foreign one
            let (s, e, ..) = sp[r.below(sp.len() as u64) as usize];
            out.splice(s..e, r.pick(&POOL).iter().copied());
        }
        4 => { // a definite array with a short head gains or loses its last element
            let cands: Vec<_> = sp.iter().filter(|x| x.2 == 4 && x.3 < 23).collect();
            if let Some(&&(s, e, _, ai, v)) = cands.get(r.below(cands.len().max(1) as u64) as usize) {
                if v > 0 && r.chance(1, 2) {
                    // drop the last element
                    let mut q = s + 1; let mut last = q;
                    for _ in 0..v { last = q; q = item_end(b, q, 0).unwrap_or(e); }
                    out.splice(last..e, std::iter::empty());
                    out[s] = (4 << 5) | (ai - 1);
                } else {
                    out.splice(e..e, r.pick(&POOL).iter().copied());
                    out[s] = (4 << 5) | (ai + 1);
                }
            } else { let i = r.below(out.len() as u64) as usize; out[i] = out[i].wrapping_add(1); }
        }
        _ => { // a small unsigned integer (variant number, map key, index) takes another value
            let cands: Vec<_> = sp.iter().filter(|x| x.2 == 0 && x.3 < 24).collect();
            if let Some(&&(s, ..)) = cands.get(r.below(cands.len().max(1) as u64) as usize) {
                out[s] = *r.pick(&[0u8, 1, 2, 3, 4, 5, 6, 7, 9, 19, 23]);
            } else { let i = r.below(out.len() as u64) as usize; out[i] ^= 0x20; }
        }
    }
    out
}

macro_rules! op_bytes { ($T:ty, $g:expr) => {{ let v: $T = <$T as Arb>::arb($g, 0); minicbor::to_vec(&v).ok() }} }

pub fn generate(g: &mut Gen) {
    let n = TYPE_NAMES.len();
    for i in 0..g.cases {
        let name = TYPE_NAMES[i % n];
        let mut r = Rng::new(g.rng.next() >> 1);
        let Some(b): Option<Vec<u8>> = schema_dispatch!(name, op_bytes, &mut r) else { continue };
        let ops: Vec<String> = (0..3).map(|_| format!("dec {name} {}", hex(&mutate(&b, &mut r)))).collect();
        g.case(ops);
    }
}

pub fn run_case(case: &Case, out: &mut Out) { super::schema::run_case(case, out) }
