//! stream `expcmp` — C16: the real `FixedPrecision::exp_cmp` vs the Lean transcription of `ref_exp_cmp`.
//! Oracle (independent of the model and of dashu): a rigorous enclosure of e^x computed with
//! num-bigint at 90 digits with directed rounding; `GT` must mean compare > e^x, `LT` compare < e^x
//! whenever the caller's bound really dominates e^|x| (the property's precondition).
use crate::fw::*;
use num_bigint::BigInt;
use num_integer::Integer;
use num_traits::{One, Signed, Zero};
use pallas_math::math::{ExpOrdering, FixedDecimal, FixedPrecision};
use std::str::FromStr;

pub const NAME: &str = "expcmp";

fn ten_pow(p: u32) -> BigInt { num_traits::pow(BigInt::from(10), p as usize) }
const S_DIGITS: u32 = 90;

/// enclosure `[lo, hi]` of `e^(x / 10^34) * 10^90` (integers), `hi - lo` tiny
pub fn exp_enclosure(x: &BigInt) -> (BigInt, BigInt) {
    let s = ten_pow(S_DIGITS);
    let p = ten_pow(34);
    if x.is_zero() { return (s.clone(), s); }
    let ax = x.abs();
    // Taylor with terms rounded down (lo) and up (hi)
    let (mut tlo, mut thi) = (s.clone(), s.clone());
    let (mut slo, mut shi) = (s.clone(), s.clone());
    let mut i = 0u64;
    loop {
        i += 1;
        let d = &p * BigInt::from(i);
        tlo = (&tlo * &ax).div_floor(&d);
        thi = (&thi * &ax).div_ceil(&d);
        slo += &tlo;
        shi += &thi;
        // stop when the terms are below one unit and decreasing at least geometrically by 1/2
        if thi <= BigInt::one() && BigInt::from(i) * &p > &ax * BigInt::from(2) { break; }
        if i > 100_000 { break; }
    }
    // remainder of the true series after term i is < 2 * (next true term) <= 2 * thi; plus rounding slack
    let hi_pos = shi + &thi * BigInt::from(2) + BigInt::from(2);
    let lo_pos = slo;
    if x.is_positive() { (lo_pos, hi_pos) } else { ((&s * &s).div_floor(&hi_pos), (&s * &s).div_ceil(&lo_pos)) }
}

fn mk(d: &BigInt) -> FixedDecimal { FixedDecimal::from_str(&d.to_string(), 34).expect("from_str") }

fn gen_x(g: &mut Gen) -> BigInt {
    let p = ten_pow(34);
    let digits = |g: &mut Gen, n: usize| -> BigInt {
        let s: String = (0..n).map(|i| char::from(b'0' + if i == 0 { g.rng.range(1, 9) } else { g.rng.below(10) } as u8)).collect();
        BigInt::from_str(&s).unwrap()
    };
    let v = match g.rng.below(16) {
        0 => BigInt::zero(),
        1 => ten_pow(g.rng.below(35) as u32),                                       // 1e-34 .. 1
        2 => ten_pow(10) + BigInt::from(g.rng.below(3)) - 1,                         // EPS - 1, EPS, EPS + 1
        3 => { let n = g.rng.range(1, 34) as usize; digits(g, n) }                   // tiny .. < 1
        15 => { let n = g.rng.range(22, 25) as usize; digits(g, n) }                 // 1e-13 .. 1e-10: where upper bounds are a few ulp wide
        4 | 5 | 6 | 7 | 8 | 9 => (&p * BigInt::from(12) / 10) * BigInt::from(g.rng.below(1_000_001)) / 1_000_000, // [0, 1.2] leader range
        10 => &p * BigInt::from(g.rng.range(1, 12)) / 10 + digits(g, 20),
        11 => digits(g, 35),                                                         // [1, 10)
        12 => &p * BigInt::from(g.rng.range(1, 40)) + digits(g, 33),                // beyond, up to 40
        13 => &p * BigInt::from(g.rng.range(1, 3)),                                  // 1, 2, 3
        _ => digits(g, 34),
    };
    if g.rng.chance(1, 8) { -v } else { v }
}

pub fn generate(g: &mut Gen) {
    let p = ten_pow(34);
    let s_over_p = ten_pow(S_DIGITS - 34);
    for _ in 0..g.cases {
        let n = g.rng.range(2, 10);
        let mut ops = vec![];
        for _ in 0..n {
            let x = gen_x(g);
            let (lo, _hi) = exp_enclosure(&x);
            let ex = &lo / &s_over_p;                      // floor(e^x * 10^34)
            let (elo_abs, ehi_abs) = exp_enclosure(&x.abs());
            let tight = ehi_abs.div_ceil(&ten_pow(S_DIGITS)); // ceil(e^|x|)
            let _ = elo_abs;
            let bound: BigInt = match g.rng.below(10) {
                0 | 1 | 2 | 3 => tight.clone(),
                4 => &tight + 1,
                5 => if x.abs() <= &p * BigInt::from(109) / 100 { BigInt::from(3) } else { &tight * 2 },
                6 => BigInt::from(1000).max(tight.clone()),
                7 => BigInt::from(g.rng.below(3)),             // 0,1,2: precondition usually violated (no soundness claim)
                8 => -BigInt::from(g.rng.range(1, 3)),         // negative bound: precondition violated
                _ => &tight + BigInt::from(g.rng.below(5)),
            };
            let bound = if bound.bits() > 62 { BigInt::from(i64::MAX) } else { bound };
            let delta: BigInt = match g.rng.below(12) {
                0 => BigInt::zero(),
                1 => BigInt::from(g.rng.range(1, 3)),
                2 => BigInt::from(g.rng.range(4, 1000)),
                3 => ten_pow(g.rng.range(4, 33) as u32),                                  // 1e-30 .. 1e-1 absolute
                4 => &ex / ten_pow(30 - g.rng.below(29) as u32),                          // 1e-30 .. 1e-2 relative
                5 => &ex / ten_pow(30),                                                    // the property's 1e-30 relative
                6 => ex.clone(),                                                           // 2x
                7 => -(&ex / BigInt::from(2)),
                8 => ten_pow(10 + g.rng.below(4) as u32),                                  // around EPS
                9 => BigInt::from(g.rng.next() >> g.rng.below(64)),
                _ => &ex * BigInt::from(g.rng.below(1000)) / 1000,
            };
            let cmp = match g.rng.below(16) {
                0 => BigInt::zero(),
                1 => -&ex,
                2 => p.clone(),
                _ => if g.rng.chance(1, 2) { &ex + &delta } else { &ex - &delta },
            };
            let max_n = match g.rng.below(8) { 0 => g.rng.range(1, 5), 1 => g.rng.range(5, 30), 2 => 0, 3 => g.rng.range(30, 1000), _ => 1000 };
            ops.push(format!("expcmp {max_n} {x} {bound} {cmp}"));
        }
        g.case(ops);
    }
}

pub fn run_case(case: &Case, out: &mut Out) {
    let (mut decided, mut unknown, mut close) = (false, false, false);
    let s = ten_pow(S_DIGITS);
    let s_over_p = ten_pow(S_DIGITS - 34);
    for op in &case.ops {
        if op[0] != "expcmp" || op.len() != 5 { out.reply("bad-op".into()); continue; }
        let (Ok(max_n), Ok(x), Ok(bound), Ok(cmp)) = (op[1].parse::<u64>(), BigInt::from_str(&op[2]), op[3].parse::<i64>(), BigInt::from_str(&op[4])) else { out.reply("bad-op".into()); continue };
        let (dx, dc) = (mk(&x), mk(&cmp));
        let r = guard(move || dx.exp_cmp(max_n, bound, &dc));
        let Some(r) = r else {
            out.viol("expcmp-panics", format!("exp_cmp({max_n}, x={x}, bound={bound}, cmp={cmp})"));
            out.panic();
            continue;
        };
        // the property's precondition: bound dominates e^|x|
        let (_, hi_abs) = exp_enclosure(&x.abs());
        let dominated = BigInt::from(bound) * &s >= hi_abs;
        let (lo, hi) = exp_enclosure(&x);
        let c = &cmp * &s_over_p;
        let est = match r.estimation { ExpOrdering::GT => "GT", ExpOrdering::LT => "LT", ExpOrdering::UNKNOWN => "UNKNOWN" };
        let sign = if x.is_negative() { "neg" } else { "nonneg" };
        if dominated {
            match r.estimation {
                ExpOrdering::GT => if !(c > hi) {
                    // how far below e^x is `compare`, against the slack proved in Lean (gt_sound_partial):
                    // (3·iterations + 3·bound) ulp on 0 <= x <= 1, bound >= 2. Inside it = the recorded
                    // rounding window of the reference algorithm; beyond it = something else is wrong.
                    let shortfall = &hi - &c;
                    let slack = (BigInt::from(3 * r.iterations) + BigInt::from(3) * BigInt::from(bound)) * &s_over_p;
                    let in_domain = !x.is_negative() && x <= ten_pow(34) && bound >= 2;
                    let key = if in_domain && shortfall <= slack { format!("gt-unsound-within-rounding-slack x={sign}") } else { format!("gt-unsound x={sign}") };
                    out.viol(key, format!("exp_cmp({max_n}, x={x}, bound={bound}, cmp={cmp}) = GT after {} iterations but cmp <= e^x (enclosure lo={lo})", r.iterations));
                },
                ExpOrdering::LT => if !(c < lo) {
                    out.viol(format!("lt-unsound x={sign}"), format!("exp_cmp({max_n}, x={x}, bound={bound}, cmp={cmp}) = LT but cmp >= e^x (enclosure hi={hi})"));
                },
                ExpOrdering::UNKNOWN => {}
            }
            out.cov(format!("dominated:{est}"));
        } else {
            out.cov(format!("not-dominated:{est}"));
        }
        if r.iterations > max_n { out.viol("iterations-exceed-max", format!("{} > {max_n}", r.iterations)); }
        match r.estimation { ExpOrdering::UNKNOWN => unknown = true, _ => decided = true }
        let rel = (&c - &lo).abs() * ten_pow(20);
        if rel < lo { close = true; }
        out.ok(format!("{} {} {}", r.iterations, est, r.approx));
    }
    if close { out.cov("compare-within-1e-20-relative"); }
    // non-trivial: the case has a decisive verdict, an UNKNOWN, and a compare value within 1e-20 (relative) of e^x
    if decided && unknown && close { out.nontrivial(); }
}
