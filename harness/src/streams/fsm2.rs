//! stream `fsm2` — C24: the real `State::apply` of every pallas-network2 mini-protocol, over the full
//! (state class × message class) product and over random message histories.
//!
//! ops:   default <proto> | init <proto> <StateClass> <tok>* | msg <MsgClass> <tok>*
//! reply: ok <rendered state> | err <Error variant>
//! Payload fields are built from small integer tokens (`mk_*`) and rendered back to the token
//! (`sh_*`), so the reply shows *where the message's data went* in the successor state.
//! Oracle (independent of the Lean side): `SPEC` below — DESIGN Appendix A typed in again in Rust —
//! says for every (state, message) whether `apply` must succeed, the successor class, and which
//! message fields the successor must carry.
use crate::fw::*;
use pallas_network2::protocol as p2;
use pallas_network2::protocol::{AnyCbor, Error, Point};
use std::collections::{BTreeMap, HashMap};

pub const NAME: &str = "fsm2";

// ------------------------------------------------------------------------------------------ payloads
// Every payload value is built from ONE token over the full width of its Rust type and rendered back to
// exactly that token (injective), so a state machine that narrows, masks or swaps a carried value
// (cookie u16, amount u8, size u32, slots / block numbers / versions u64) shows up in the reply.
fn mk_point(k: u64) -> Point { Point::Specific(k, k.to_be_bytes().to_vec()) }
fn sh_point(p: &Point) -> String {
    match p { Point::Specific(s, h) if h[..] == s.to_be_bytes() => s.to_string(), Point::Origin => "origin".into(), _ => "?".into() }
}
fn mk_points(k: u64) -> Vec<Point> { vec![mk_point(k), mk_point(k.wrapping_add(100))] }
fn sh_points(v: &[Point]) -> String {
    if v.len() == 2 && sh_point(&v[0]) != "?" && v[1] == mk_point(v[0].slot_or_default().wrapping_add(100)) { sh_point(&v[0]) } else { "?".into() }
}
fn mk_range(k: u64) -> (Point, Point) { (mk_point(k), mk_point(k.wrapping_add(100))) }
fn sh_range(r: &(Point, Point)) -> String { sh_points(&[r.0.clone(), r.1.clone()]) }
fn mk_bytes(k: u64) -> Vec<u8> { k.to_be_bytes().to_vec() }
fn sh_bytes(b: &[u8]) -> String { match <[u8; 8]>::try_from(b) { Ok(a) => u64::from_be_bytes(a).to_string(), Err(_) => "?".into() } }
fn mk_tip(k: u64) -> p2::chainsync::Tip { p2::chainsync::Tip(mk_point(k), k.wrapping_add(7)) }
fn sh_tip(t: &p2::chainsync::Tip) -> String { if t.1 == t.0.slot_or_default().wrapping_add(7) { sh_point(&t.0) } else { "?".into() } }
fn mk_any(k: u64) -> AnyCbor { let mut v = vec![0x1b]; v.extend(k.to_be_bytes()); AnyCbor::from_raw_bytes(v) }
fn sh_any(a: &AnyCbor) -> String { let b = a.raw_bytes(); if b.len() == 9 && b[0] == 0x1b { sh_bytes(&b[1..]) } else { "?".into() } }
fn mk_anys(k: u64) -> Vec<AnyCbor> { vec![mk_any(k), mk_any(k.wrapping_add(100))] }
fn sh_anys(v: &[AnyCbor]) -> String {
    if v.len() == 2 && sh_any(&v[0]) != "?" && v[1] == mk_any(sh_any(&v[0]).parse::<u64>().unwrap_or(0).wrapping_add(100)) { sh_any(&v[0]) } else { "?".into() }
}
fn mk_bitmaps(k: u64) -> p2::leiosfetch::Bitmaps { let mut m = BTreeMap::new(); m.insert(k as u16, k); p2::leiosfetch::Bitmaps(m) }
fn sh_bitmaps(b: &p2::leiosfetch::Bitmaps) -> String {
    if b.0.len() == 1 { let (k, v) = b.0.iter().next().unwrap(); if *k == *v as u16 { return v.to_string(); } }
    "?".into()
}
/// 48 bits: IPv4 address = low 32 bits, port = bits 32..48
fn mk_peers(k: u64) -> Vec<p2::peersharing::PeerAddress> {
    vec![p2::peersharing::PeerAddress::V4(std::net::Ipv4Addr::from(k as u32), (k >> 32) as u16)]
}
fn sh_peers(v: &[p2::peersharing::PeerAddress]) -> String {
    match v { [p2::peersharing::PeerAddress::V4(a, port)] => (a.to_bits() as u64 | (*port as u64) << 32).to_string(), _ => "?".into() }
}
fn mk_bodies(k: u64) -> Vec<p2::txsubmission::EraTxBody> { vec![p2::txsubmission::EraTxBody(k as u16, mk_bytes(k))] }
fn sh_bodies(v: &[p2::txsubmission::EraTxBody]) -> String {
    match v { [] => "Vec::new".into(), [b] if sh_bytes(&b.1) != "?" && b.0 == sh_bytes(&b.1).parse::<u64>().unwrap_or(0) as u16 => sh_bytes(&b.1), _ => "?".into() }
}
fn mk_ids(k: u64) -> Vec<p2::txsubmission::EraTxId> { vec![p2::txsubmission::EraTxId(k as u16, mk_bytes(k))] }
fn mk_idsizes(k: u64) -> Vec<p2::txsubmission::TxIdAndSize<p2::txsubmission::EraTxId>> {
    vec![p2::txsubmission::TxIdAndSize(p2::txsubmission::EraTxId(k as u16, mk_bytes(k)), k as u32)]
}
type VT = p2::handshake::VersionTable<u64>;
fn mk_vt(k: u64) -> VT { let mut values = HashMap::new(); values.insert(k, k.wrapping_add(1)); p2::handshake::VersionTable { values } }
fn sh_vt(t: &VT) -> String {
    if t.values.len() == 1 { let (k, v) = t.values.iter().next().unwrap(); if *v == k.wrapping_add(1) { return k.to_string(); } }
    "?".into()
}
fn mk_refuse(k: u64) -> p2::handshake::RefuseReason { p2::handshake::RefuseReason::VersionMismatch(vec![k, k.wrapping_add(1)]) }
fn sh_refuse(r: &p2::handshake::RefuseReason) -> String {
    match r { p2::handshake::RefuseReason::VersionMismatch(v) if v.len() == 2 && v[1] == v[0].wrapping_add(1) => v[0].to_string(), _ => "?".into() }
}

/// width of a payload field (tokens are drawn from the boundary set of that width)
#[derive(Clone, Copy, PartialEq)]
enum K { U8, U16, U32, U48, U64, Small }

fn msg_kinds(proto: &str, cls: &str) -> &'static [K] {
    use K::*;
    match (proto, cls) {
        ("blockfetch", "RequestRange") | ("blockfetch", "Block") => &[U64],
        ("chainsync", "RollForward") | ("chainsync", "RollBackward") | ("chainsync", "IntersectFound") => &[U64, U64],
        ("chainsync", "FindIntersect") | ("chainsync", "IntersectNotFound") => &[U64],
        ("handshake", "Accept") => &[U64, U64],
        ("handshake", _) => &[U64],
        ("keepalive", "KeepAlive") | ("keepalive", "ResponseKeepAlive") => &[U16],
        ("leiosfetch", "BlockRequest") | ("leiosfetch", "Block") => &[U64],
        ("leiosfetch", "BlockTxsRequest") => &[U64, U64],
        ("leiosfetch", "BlockTxs") => &[U64, U64, U64],
        ("leiosnotify", "BlockOffer") => &[U64, U32],
        ("leiosnotify", "BlockAnnouncement") | ("leiosnotify", "BlockTxsOffer") | ("leiosnotify", "Votes") => &[U64],
        ("peersharing", "ShareRequest") => &[U8],
        ("peersharing", "SharePeers") => &[U48],
        ("txsubmission", "RequestTxIds(true)") | ("txsubmission", "RequestTxIds(false)") => &[Small, U16, U16],
        ("txsubmission", "ReplyTxIds") | ("txsubmission", "RequestTxs") | ("txsubmission", "ReplyTxs") => &[U64],
        _ => &[],
    }
}

/// payload fields of the states built by `init` (sub-enum selectors stay small: 0 = the empty variant)
fn state_kinds(proto: &str, cls: &str) -> &'static [K] {
    use K::*;
    match (proto, cls) {
        ("blockfetch", "Busy") => &[U64],
        ("chainsync", "Intersect") => &[U64],
        ("handshake", "Confirm") => &[U64],
        ("keepalive", "Server") => &[U16],
        ("leiosfetch", "AwaitingBlock") => &[U64],
        ("leiosfetch", "AwaitingBlockTxs") => &[U64, U64],
        ("peersharing", "Busy") => &[U8],
        ("txsubmission", "Txs") => &[U64],
        (_, _) => &[Small, Small, Small],
    }
}

fn boundary(g: &mut Gen, k: K, lo: u64) -> u64 {
    let small = lo + g.rng.below(40);
    let max = match k { K::U8 => 0xff, K::U16 => 0xffff, K::U32 => 0xffff_ffff, K::U48 => 0xffff_ffff_ffff, K::U64 => u64::MAX, K::Small => return small };
    if g.rng.chance(1, 2) { return small.min(max); }
    let cands: [u64; 22] = [127, 128, 254, 255, 256, 257, 32767, 32768, 65534, 65535, 65536, 65537, (1 << 31) + small, u32::MAX as u64,
        1 << 32, (1 << 32) + small, (1 << 47) + small, (1 << 48) - 1, (1 << 63) - 1, (1 << 63) + small, u64::MAX - small, u64::MAX];
    let fit: Vec<u64> = cands.iter().copied().filter(|c| *c <= max).collect();
    // the largest values of the width are the most interesting ones: pick from the top half twice as often
    let i = if g.rng.chance(1, 2) { fit.len() / 2 + g.rng.below((fit.len() - fit.len() / 2) as u64) as usize } else { g.rng.below(fit.len() as u64) as usize };
    fit[i]
}

// ------------------------------------------------------------------------------------------ machines
enum M {
    Bf(p2::blockfetch::State),
    Cs(p2::chainsync::State<u64>),
    Hs(p2::handshake::State<u64>),
    Ka(p2::keepalive::State),
    Lf(p2::leiosfetch::State),
    Ln(p2::leiosnotify::State),
    Ps(p2::peersharing::State),
    Tx(p2::txsubmission::State),
}

fn t(toks: &[u64], i: usize) -> u64 { toks.get(i).copied().unwrap_or(0) }

fn default_of(proto: &str) -> Option<M> {
    Some(match proto {
        "blockfetch" => M::Bf(Default::default()),
        "chainsync" => M::Cs(Default::default()),
        "handshake" => M::Hs(Default::default()),
        "keepalive" => M::Ka(Default::default()),
        "leiosfetch" => M::Lf(Default::default()),
        "leiosnotify" => M::Ln(Default::default()),
        "peersharing" => M::Ps(Default::default()),
        "txsubmission" => M::Tx(Default::default()),
        _ => return None,
    })
}

/// an arbitrary state of the class; payload fields from the tokens (sub-enums: 0 = the empty variant)
fn init_of(proto: &str, cls: &str, k: &[u64]) -> Option<M> {
    use p2::*;
    Some(match (proto, cls) {
        ("blockfetch", "Idle") => M::Bf(blockfetch::State::Idle),
        ("blockfetch", "Busy") => M::Bf(blockfetch::State::Busy(mk_range(t(k, 0)))),
        ("blockfetch", "Streaming") => M::Bf(blockfetch::State::Streaming(if t(k, 0) == 0 { None } else { Some(mk_bytes(t(k, 0))) })),
        ("blockfetch", "Done") => M::Bf(blockfetch::State::Done),
        ("chainsync", "Idle") => M::Cs(chainsync::State::Idle(match t(k, 0) % 3 {
            0 => chainsync::Data::New,
            1 => chainsync::Data::Drained,
            _ => chainsync::Data::Content(t(k, 0), mk_tip(t(k, 0))),
        })),
        ("chainsync", "CanAwait") => M::Cs(chainsync::State::CanAwait),
        ("chainsync", "MustReply") => M::Cs(chainsync::State::MustReply),
        ("chainsync", "Intersect") => M::Cs(chainsync::State::Intersect(mk_points(t(k, 0)))),
        ("chainsync", "Done") => M::Cs(chainsync::State::Done),
        ("handshake", "Propose") => M::Hs(handshake::State::Propose),
        ("handshake", "Confirm") => M::Hs(handshake::State::Confirm(mk_vt(t(k, 0)))),
        ("handshake", "Done") => M::Hs(handshake::State::Done(match t(k, 0) % 3 {
            0 => handshake::DoneState::Accepted(t(k, 0), 1),
            1 => handshake::DoneState::Rejected(mk_refuse(t(k, 0))),
            _ => handshake::DoneState::QueryReply(mk_vt(t(k, 0))),
        })),
        ("keepalive", "Client") => M::Ka(keepalive::State::Client(if t(k, 0) == 0 { keepalive::ClientState::Empty } else { keepalive::ClientState::Response(t(k, 0) as u16) })),
        ("keepalive", "Server") => M::Ka(keepalive::State::Server(t(k, 0) as u16)),
        ("keepalive", "Done") => M::Ka(keepalive::State::Done),
        ("leiosfetch", "Idle") => M::Lf(leiosfetch::State::Idle(if t(k, 0) == 0 { None } else { Some((mk_point(t(k, 0)), leiosfetch::Response::Block(mk_any(t(k, 0))))) })),
        ("leiosfetch", "AwaitingBlock") => M::Lf(leiosfetch::State::AwaitingBlock(mk_point(t(k, 0)))),
        ("leiosfetch", "AwaitingBlockTxs") => M::Lf(leiosfetch::State::AwaitingBlockTxs(mk_point(t(k, 0)), mk_bitmaps(t(k, 1)))),
        ("leiosfetch", "Done") => M::Lf(leiosfetch::State::Done),
        ("leiosnotify", "Idle") => M::Ln(leiosnotify::State::Idle(if t(k, 0) == 0 { None } else { Some(leiosnotify::Notification::BlockTxsOffer(mk_point(t(k, 0)))) })),
        ("leiosnotify", "Busy") => M::Ln(leiosnotify::State::Busy),
        ("leiosnotify", "Done") => M::Ln(leiosnotify::State::Done),
        ("peersharing", "Idle") => M::Ps(peersharing::State::Idle(if t(k, 0) == 0 { peersharing::IdleState::Empty } else { peersharing::IdleState::Response(mk_peers(t(k, 0))) })),
        ("peersharing", "Busy") => M::Ps(peersharing::State::Busy(t(k, 0) as u8)),
        ("peersharing", "Done") => M::Ps(peersharing::State::Done),
        ("txsubmission", "Init") => M::Tx(txsubmission::State::Init),
        ("txsubmission", "Idle") => M::Tx(txsubmission::State::Idle),
        ("txsubmission", "TxIdsNonBlocking") => M::Tx(txsubmission::State::TxIdsNonBlocking),
        ("txsubmission", "TxIdsBlocking") => M::Tx(txsubmission::State::TxIdsBlocking),
        ("txsubmission", "Txs") => M::Tx(txsubmission::State::Txs(mk_bodies(t(k, 0)))),
        ("txsubmission", "Done") => M::Tx(txsubmission::State::Done),
        _ => return None,
    })
}

impl M {
    fn class(&self) -> &'static str {
        use p2::*;
        match self {
            M::Bf(s) => match s { blockfetch::State::Idle => "Idle", blockfetch::State::Busy(..) => "Busy", blockfetch::State::Streaming(..) => "Streaming", blockfetch::State::Done => "Done" },
            M::Cs(s) => match s { chainsync::State::Idle(..) => "Idle", chainsync::State::CanAwait => "CanAwait", chainsync::State::MustReply => "MustReply", chainsync::State::Intersect(..) => "Intersect", chainsync::State::Done => "Done" },
            M::Hs(s) => match s { handshake::State::Propose => "Propose", handshake::State::Confirm(..) => "Confirm", handshake::State::Done(..) => "Done" },
            M::Ka(s) => match s { keepalive::State::Client(..) => "Client", keepalive::State::Server(..) => "Server", keepalive::State::Done => "Done" },
            M::Lf(s) => match s { leiosfetch::State::Idle(..) => "Idle", leiosfetch::State::AwaitingBlock(..) => "AwaitingBlock", leiosfetch::State::AwaitingBlockTxs(..) => "AwaitingBlockTxs", leiosfetch::State::Done => "Done" },
            M::Ln(s) => match s { leiosnotify::State::Idle(..) => "Idle", leiosnotify::State::Busy => "Busy", leiosnotify::State::Done => "Done" },
            M::Ps(s) => match s { peersharing::State::Idle(..) => "Idle", peersharing::State::Busy(..) => "Busy", peersharing::State::Done => "Done" },
            M::Tx(s) => match s { txsubmission::State::Init => "Init", txsubmission::State::Idle => "Idle", txsubmission::State::TxIdsNonBlocking => "TxIdsNonBlocking", txsubmission::State::TxIdsBlocking => "TxIdsBlocking", txsubmission::State::Txs(..) => "Txs", txsubmission::State::Done => "Done" },
        }
    }

    fn show(&self) -> String {
        use p2::*;
        match self {
            M::Bf(s) => match s {
                blockfetch::State::Busy(r) => format!("Busy({})", sh_range(r)),
                blockfetch::State::Streaming(None) => "Streaming(None)".into(),
                blockfetch::State::Streaming(Some(b)) => format!("Streaming(Some({}))", sh_bytes(b)),
                _ => self.class().into(),
            },
            M::Cs(s) => match s {
                chainsync::State::Idle(d) => format!("Idle({})", match d {
                    chainsync::Data::New => "New".to_string(),
                    chainsync::Data::Drained => "Drained".to_string(),
                    chainsync::Data::Intersection(p, t) => format!("Intersection({},{})", sh_point(p), sh_tip(t)),
                    chainsync::Data::NoIntersection(t) => format!("NoIntersection({})", sh_tip(t)),
                    chainsync::Data::Content(c, t) => format!("Content({},{})", c, sh_tip(t)),
                    chainsync::Data::Rollback(p, t) => format!("Rollback({},{})", sh_point(p), sh_tip(t)),
                }),
                chainsync::State::Intersect(v) => format!("Intersect({})", sh_points(v)),
                _ => self.class().into(),
            },
            M::Hs(s) => match s {
                handshake::State::Propose => "Propose".into(),
                handshake::State::Confirm(t) => format!("Confirm({})", sh_vt(t)),
                handshake::State::Done(d) => format!("Done({})", match d {
                    handshake::DoneState::Accepted(v, d) => format!("Accepted({},{})", v, d),
                    handshake::DoneState::Rejected(r) => format!("Rejected({})", sh_refuse(r)),
                    handshake::DoneState::QueryReply(t) => format!("QueryReply({})", sh_vt(t)),
                }),
            },
            M::Ka(s) => match s {
                keepalive::State::Client(keepalive::ClientState::Empty) => "Client(Empty)".into(),
                keepalive::State::Client(keepalive::ClientState::Response(c)) => format!("Client(Response({}))", c),
                keepalive::State::Server(c) => format!("Server({})", c),
                keepalive::State::Done => "Done".into(),
            },
            M::Lf(s) => match s {
                leiosfetch::State::Idle(None) => "Idle(None)".into(),
                leiosfetch::State::Idle(Some((eb, r))) => format!("Idle(Some(({},{})))", sh_point(eb), match r {
                    leiosfetch::Response::Block(b) => format!("Block({})", sh_any(b)),
                    leiosfetch::Response::BlockTxs { txs } => format!("BlockTxs({})", sh_anys(txs)),
                }),
                leiosfetch::State::AwaitingBlock(eb) => format!("AwaitingBlock({})", sh_point(eb)),
                leiosfetch::State::AwaitingBlockTxs(eb, b) => format!("AwaitingBlockTxs({},{})", sh_point(eb), sh_bitmaps(b)),
                leiosfetch::State::Done => "Done".into(),
            },
            M::Ln(s) => match s {
                leiosnotify::State::Idle(None) => "Idle(None)".into(),
                leiosnotify::State::Idle(Some(n)) => format!("Idle(Some({}))", match n {
                    leiosnotify::Notification::BlockAnnouncement(a) => format!("BlockAnnouncement({})", sh_any(a)),
                    leiosnotify::Notification::BlockOffer(p, s) => format!("BlockOffer({},{})", sh_point(p), s),
                    leiosnotify::Notification::BlockTxsOffer(p) => format!("BlockTxsOffer({})", sh_point(p)),
                    leiosnotify::Notification::Votes(v) => format!("Votes({})", sh_anys(v)),
                }),
                _ => self.class().into(),
            },
            M::Ps(s) => match s {
                peersharing::State::Idle(peersharing::IdleState::Empty) => "Idle(Empty)".into(),
                peersharing::State::Idle(peersharing::IdleState::Response(v)) => format!("Idle(Response({}))", sh_peers(v)),
                peersharing::State::Busy(n) => format!("Busy({})", n),
                peersharing::State::Done => "Done".into(),
            },
            M::Tx(s) => match s {
                txsubmission::State::Txs(v) => format!("Txs({})", sh_bodies(v)),
                _ => self.class().into(),
            },
        }
    }

    /// build the message of class `cls` from the tokens and call the real `apply`
    fn apply(&self, cls: &str, k: &[u64]) -> Option<Result<M, Error>> {
        use p2::*;
        Some(match self {
            M::Bf(s) => {
                let m = match cls {
                    "RequestRange" => blockfetch::Message::RequestRange(mk_range(t(k, 0))),
                    "ClientDone" => blockfetch::Message::ClientDone,
                    "StartBatch" => blockfetch::Message::StartBatch,
                    "NoBlocks" => blockfetch::Message::NoBlocks,
                    "Block" => blockfetch::Message::Block(mk_bytes(t(k, 0))),
                    "BatchDone" => blockfetch::Message::BatchDone,
                    _ => return None,
                };
                s.apply(&m).map(M::Bf)
            }
            M::Cs(s) => {
                let m = match cls {
                    "RequestNext" => chainsync::Message::RequestNext,
                    "AwaitReply" => chainsync::Message::AwaitReply,
                    "RollForward" => chainsync::Message::RollForward(t(k, 0), mk_tip(t(k, 1))),
                    "RollBackward" => chainsync::Message::RollBackward(mk_point(t(k, 0)), mk_tip(t(k, 1))),
                    "FindIntersect" => chainsync::Message::FindIntersect(mk_points(t(k, 0))),
                    "IntersectFound" => chainsync::Message::IntersectFound(mk_point(t(k, 0)), mk_tip(t(k, 1))),
                    "IntersectNotFound" => chainsync::Message::IntersectNotFound(mk_tip(t(k, 0))),
                    "Done" => chainsync::Message::Done,
                    _ => return None,
                };
                s.apply(&m).map(M::Cs)
            }
            M::Hs(s) => {
                let m = match cls {
                    "Propose" => handshake::Message::Propose(mk_vt(t(k, 0))),
                    "Accept" => handshake::Message::Accept(t(k, 0), t(k, 1)),
                    "Refuse" => handshake::Message::Refuse(mk_refuse(t(k, 0))),
                    "QueryReply" => handshake::Message::QueryReply(mk_vt(t(k, 0))),
                    _ => return None,
                };
                s.apply(&m).map(M::Hs)
            }
            M::Ka(s) => {
                let m = match cls {
                    "KeepAlive" => keepalive::Message::KeepAlive(t(k, 0) as u16),
                    "ResponseKeepAlive" => keepalive::Message::ResponseKeepAlive(t(k, 0) as u16),
                    "Done" => keepalive::Message::Done,
                    _ => return None,
                };
                s.apply(&m).map(M::Ka)
            }
            M::Lf(s) => {
                let m = match cls {
                    "BlockRequest" => leiosfetch::Message::BlockRequest(mk_point(t(k, 0))),
                    "Block" => leiosfetch::Message::Block(mk_any(t(k, 0))),
                    "BlockTxsRequest" => leiosfetch::Message::BlockTxsRequest(mk_point(t(k, 0)), mk_bitmaps(t(k, 1))),
                    "BlockTxs" => leiosfetch::Message::BlockTxs { point: mk_point(t(k, 0)), bitmaps: mk_bitmaps(t(k, 1)), txs: mk_anys(t(k, 2)) },
                    "Done" => leiosfetch::Message::Done,
                    _ => return None,
                };
                s.apply(&m).map(M::Lf)
            }
            M::Ln(s) => {
                let m = match cls {
                    "RequestNext" => leiosnotify::Message::RequestNext,
                    "BlockAnnouncement" => leiosnotify::Message::BlockAnnouncement(mk_any(t(k, 0))),
                    "BlockOffer" => leiosnotify::Message::BlockOffer(mk_point(t(k, 0)), t(k, 1) as u32),
                    "BlockTxsOffer" => leiosnotify::Message::BlockTxsOffer(mk_point(t(k, 0))),
                    "Votes" => leiosnotify::Message::Votes(mk_anys(t(k, 0))),
                    "Done" => leiosnotify::Message::Done,
                    _ => return None,
                };
                s.apply(&m).map(M::Ln)
            }
            M::Ps(s) => {
                let m = match cls {
                    "ShareRequest" => peersharing::Message::ShareRequest(t(k, 0) as u8),
                    "SharePeers" => peersharing::Message::SharePeers(mk_peers(t(k, 0))),
                    "Done" => peersharing::Message::Done,
                    _ => return None,
                };
                s.apply(&m).map(M::Ps)
            }
            M::Tx(s) => {
                let m = match cls {
                    "Init" => txsubmission::Message::Init,
                    "RequestTxIds(true)" => txsubmission::Message::RequestTxIds(true, t(k, 1) as u16, t(k, 2) as u16),
                    "RequestTxIds(false)" => txsubmission::Message::RequestTxIds(false, t(k, 1) as u16, t(k, 2) as u16),
                    "ReplyTxIds" => txsubmission::Message::ReplyTxIds(mk_idsizes(t(k, 0))),
                    "RequestTxs" => txsubmission::Message::RequestTxs(mk_ids(t(k, 0))),
                    "ReplyTxs" => txsubmission::Message::ReplyTxs(mk_bodies(t(k, 0))),
                    "Done" => txsubmission::Message::Done,
                    _ => return None,
                };
                s.apply(&m).map(M::Tx)
            }
        })
    }
}

// ------------------------------------------------------------------------------------------ the specification (oracle)
#[path = "../fixtures/fsm_spec.rs"]
mod fsm_spec;
use fsm_spec::{PSpec, SPEC_N2 as SPEC};

fn spec_of(name: &str) -> Option<&'static PSpec> { SPEC.iter().find(|s| s.name == name) }

// ------------------------------------------------------------------------------------------ generator
/// distinct tokens, one per field, from the boundary set of the field's width; message fields start at
/// 1, state fields at 50 and `used` is shared, so no two tokens of a case are equal ("carried" is observable)
fn toks(g: &mut Gen, kinds: &[K], n: usize, lo: u64, used: &mut Vec<u64>) -> String {
    let mut out = String::new();
    for i in 0..n {
        let k = kinds.get(i).copied().unwrap_or(K::Small);
        let mut v = boundary(g, k, lo);
        let mut tries = 0;
        while used.contains(&v) { tries += 1; v = if tries > 20 { lo + 41 + used.len() as u64 } else { boundary(g, k, lo) }; }
        used.push(v);
        out += &format!(" {v}");
    }
    out
}

pub fn generate(g: &mut Gen) {
    // (a) the complete product: every state class × every message class of every protocol
    for sp in SPEC {
        for (st, sn) in sp.states {
            for (m, mn) in sp.msgs {
                // each pair several times: small tokens, and the extremes of every field's width
                for _ in 0..3 {
                    let mut used = vec![];
                    let a = format!("init {} {}{}", sp.name, st, toks(g, state_kinds(sp.name, st), *sn, 50, &mut used));
                    let b = format!("msg {}{}", m, toks(g, msg_kinds(sp.name, m), *mn, 1, &mut used));
                    g.case(vec![a, b]);
                }
            }
        }
    }
    // (b) random histories from the initial state (biased to permitted messages so they get deep)
    for i in 0..g.cases {
        let sp = &SPEC[i % SPEC.len()];
        let len = if g.rng.chance(1, 8) { 64 } else { g.rng.range(1, 24) } as usize;
        let mut ops = vec![format!("default {}", sp.name)];
        let mut cur = sp.init;
        for _ in 0..len {
            let allowed: Vec<&(&str, &str, &str, &[usize])> = sp.trans.iter().filter(|r| r.0 == cur).collect();
            let m = if !allowed.is_empty() && g.rng.chance(3, 4) {
                // avoid terminating too early: prefer non-Done successors
                let nd: Vec<_> = allowed.iter().filter(|r| r.2 != "Done").collect();
                if !nd.is_empty() && g.rng.chance(9, 10) { nd[g.rng.below(nd.len() as u64) as usize].1 } else { allowed[g.rng.below(allowed.len() as u64) as usize].1 }
            } else {
                sp.msgs[g.rng.below(sp.msgs.len() as u64) as usize].0
            };
            let mn = sp.msgs.iter().find(|x| x.0 == m).unwrap().1;
            let mut used = vec![];
            ops.push(format!("msg {}{}", m, toks(g, msg_kinds(sp.name, m), mn, 1, &mut used)));
            if let Some((n, _)) = sp.step(cur, m) { cur = n; }
        }
        g.case(ops);
    }
}

// ------------------------------------------------------------------------------------------ run
fn err_name(e: &Error) -> &'static str {
    match e {
        Error::AgencyIsOurs => "AgencyIsOurs",
        Error::AgencyIsTheirs => "AgencyIsTheirs",
        Error::InvalidInbound => "InvalidInbound",
        Error::InvalidOutbound => "InvalidOutbound",
        Error::Other(_) => "Other",
    }
}

fn has_token(rendered: &str, tok: &str) -> bool {
    rendered.split(|c: char| !c.is_ascii_alphanumeric()).any(|x| x == tok)
}

pub fn run_case(case: &Case, out: &mut Out) {
    let mut cur: Option<(M, &'static PSpec)> = None;
    let (mut acc, mut rej) = (0, 0);
    for op in &case.ops {
        let nums: Vec<u64> = op.iter().skip(if op[0] == "init" { 3 } else { 2 }).filter_map(|s| s.parse().ok()).collect();
        match op[0].as_str() {
            "default" if op.len() == 2 => match (guard(|| default_of(&op[1])).flatten(), spec_of(&op[1])) {
                (Some(m), Some(sp)) => {
                    if m.class() != sp.init { out.viol(format!("n2-initial:{} got={} want={}", sp.name, m.class(), sp.init), "Default::default() is not the specification's initial state"); }
                    out.ok(m.show());
                    cur = Some((m, sp));
                }
                _ => out.reply("bad-op".into()),
            },
            "init" if op.len() >= 3 => match (init_of(&op[1], &op[2], &nums), spec_of(&op[1])) {
                (Some(m), Some(sp)) => {
                    let toks = &op[3..];
                    out.ok(if toks.is_empty() { op[2].clone() } else { format!("{}({})", op[2], toks.join(",")) });
                    cur = Some((m, sp));
                }
                _ => out.reply("bad-op".into()),
            },
            "msg" if op.len() >= 2 && cur.is_some() => {
                let (m, sp) = cur.take().unwrap();
                let st = m.class();
                let res = guard_mut(|| m.apply(&op[1], &nums));
                match res {
                    None => { out.viol(format!("n2-panic:{}:{}+{}", sp.name, st, op[1]), "State::apply panicked"); out.panic(); cur = Some((m, sp)); }
                    Some(None) => { out.reply("bad-op".into()); cur = Some((m, sp)); }
                    Some(Some(r)) => {
                        let want = sp.step(st, &op[1]);
                        let got = r.as_ref().ok().map(|n| n.class());
                        if got != want.map(|w| w.0) {
                            out.viol(format!("n2-transition:{}:{}+{} got={} want={}", sp.name, st, op[1], got.unwrap_or("Err"), want.map(|w| w.0).unwrap_or("Err")),
                                     format!("State::apply in state {} on message {}: implementation {} — specification {}", st, op[1],
                                             got.map(|g| format!("accepts, next state {g}")).unwrap_or("refuses".into()),
                                             want.map(|w| format!("permits it, next state {}", w.0)).unwrap_or("forbids it".into())));
                        }
                        match r {
                            Ok(n) => {
                                let shown = n.show();
                                if let Some((_, carried)) = want {
                                    for i in carried {
                                        if let Some(tok) = op.get(2 + i) {
                                            if !has_token(&shown, tok) {
                                                out.viol(format!("n2-carry:{}:{}+{} field={}", sp.name, st, op[1], i),
                                                         format!("message field {} (token {}) is not in the successor state {}", i, tok, shown));
                                            }
                                        }
                                    }
                                }
                                out.cov(format!("accept:{}:{}+{}", sp.name, st, op[1]));
                                acc += 1;
                                out.ok(shown);
                                cur = Some((n, sp));
                            }
                            Err(e) => { rej += 1; out.err(err_name(&e)); cur = Some((m, sp)); }
                        }
                    }
                }
            }
            _ => out.reply("bad-op".into()),
        }
    }
    if acc > 0 && rej > 0 { out.nontrivial(); }
}
