//! stream `kesfs` — C13: KES evolution erases the signing material of past periods. Same driver as `kes`
//! with the forward-security oracle (fixtures/kes_common.rs, `Mode::Erase`): full evolution histories,
//! key buffer scanned after every update.
use crate::fw::*;
#[path = "../fixtures/kes_common.rs"]
mod kes_common;
pub const NAME: &str = "kesfs";
pub fn generate(g: &mut Gen) { kes_common::generate(g, kes_common::Mode::Erase) }
pub fn run_case(case: &Case, out: &mut Out) { kes_common::run_case(case, out, kes_common::Mode::Erase) }
