//! stream `chain` — C06, chain half: every block / transaction / header artefact of `test_data` and the
//! blocks of the hardano immutable chunks in `test_data` is decoded by pallas (`MultiEraBlock::decode`,
//! `MultiEraTx::decode`, typed header decode) and re-encoded.
//!   blk <label> <hex>   reply `ok <type> <same> <ntokens> <fnv64 of the decoded value text>`
//!   tx  <type> <hex>    the same, decoded as the `Tx` type of the artefact's own era
//!   hdr <type> <hex>
//! Oracle: the re-encoding must be the input bytes (`chain-iso <label>`). The Lean side decodes the same bytes
//! with the translated schema of the same type, re-encodes, and prints the same line, so the decoded value
//! (raws included) is compared at full depth through its text digest.
use crate::fw::*;
use pallas_codec::minicbor;
use pallas_traverse::{MultiEraBlock, MultiEraTx};
use std::path::PathBuf;

use super::schema::schema_traits::*;
use super::schema::schema_gen::schema_dispatch;

pub const NAME: &str = "chain";

fn repo() -> PathBuf { PathBuf::from(std::env::var("PV_REPO").unwrap_or_else(|_| "/repo".into())) }

pub fn fnv64(s: &str) -> u64 {
    let mut h: u64 = 0xcbf29ce484222325;
    for b in s.as_bytes() { h ^= *b as u64; h = h.wrapping_mul(0x100000001b3); }
    h
}

pub fn generate(g: &mut Gen) {
    let dir = repo().join("test_data");
    let mut names: Vec<String> = std::fs::read_dir(&dir).map(|d| d.filter_map(|e| e.ok()).map(|e| e.file_name().to_string_lossy().to_string()).collect()).unwrap_or_default();
    names.sort();
    let mut ops: Vec<String> = vec![];
    for n in &names {
        let kind = if n.ends_with(".block") { "blk" } else if n.ends_with(".tx") { "tx" } else if n.ends_with(".header") { "hdr" } else { continue };
        let Ok(text) = std::fs::read_to_string(dir.join(n)) else { continue };
        let text = text.trim();
        if text.is_empty() || unhex(text).is_none() { continue; }
        // the list-based Lean parser is quadratic in the number of items: artefacts above 60 kB (genesis.block: 650 kB,
        // 21k stakeholders, about a minute) are left to the thorough tier
        if !g.thorough() && text.len() > 120_000 { continue; }
        // headers and transactions are decoded as the type of their own era (the file name tells it);
        // `MultiEraTx::decode` tries Conway first, which is traverse's business, not the codecs'
        let label = if kind == "hdr" { if n.starts_with("byron") { "byron.BlockHead".to_string() } else if n.starts_with("alonzo") { "alonzo.Header".into() } else { "babbage.Header".into() } }
            else if kind == "tx" {
                if n.starts_with("byron") { "byron.TxPayload".to_string() } else if n.starts_with("babbage") { "babbage.Tx".into() } else if n.starts_with("conway") { "conway.Tx".into() }
                else if ["shelley", "allegra", "mary", "alonzo"].iter().any(|e| n.starts_with(e)) { "alonzo.Tx".into() } else { continue }
            } else { n.clone() };
        ops.push(format!("{kind} {label} {}", text.to_lowercase()));
    }
    // immutable-DB chunks: `cases` blocks spread evenly (all of them in the thorough tier)
    let mut chunk_blocks: Vec<(String, Vec<u8>)> = vec![];
    for c in ["01285", "01836", "02019"] {
        // a chunk file is the concatenation of its blocks: split it with the strict item walker
        // (independent of the hardano reader, whose behaviour is C42/C43's subject)
        if let Ok(data) = std::fs::read(dir.join(format!("{c}.chunk"))) {
            let (mut p, mut i) = (0usize, 0usize);
            while p < data.len() {
                let Some(e) = super::schema::item_end(&data, p, 0) else { break };
                chunk_blocks.push((format!("{c}#{i}"), data[p..e].to_vec()));
                p = e; i += 1;
            }
        }
    }
    let total = chunk_blocks.len();
    let want = if g.thorough() { total } else { g.cases.min(total) };
    if want > 0 {
        let off = (g.seed as usize) % total.max(1);
        for k in 0..want {
            let i = if want == total { k } else { (off + k * total / want) % total };
            let (l, b) = &chunk_blocks[i];
            if !g.thorough() && b.len() > 60_000 { continue; }
            ops.push(format!("blk {l} {}", hex(b)));
        }
    }
    for op in ops { g.case(vec![op]); }
}

/// innermost item of `b` that contains offset `at`: (path of container positions, start offset)
fn locate(b: &[u8], p: usize, at: usize, path: &mut Vec<usize>, depth: u32) -> Option<usize> {
    let end = super::schema::item_end(b, p, depth)?;
    if !(p <= at && at < end) { return Some(end); }
    let ib = b[p]; let (m, ai) = (ib >> 5, ib & 31);
    if m == 4 || m == 5 || m == 6 {
        // step over the head
        let n = match ai { 24 => 1, 25 => 2, 26 => 4, 27 => 8, _ => 0 };
        let mut q = p + 1 + n;
        if q <= at {
            let mut i = 0;
            while q < end && b[q] != 0xff || (ai != 31 && q < end) {
                let e = super::schema::item_end(b, q, depth + 1)?;
                if q <= at && at < e { path.push(i); return locate(b, q, at, path, depth + 1).map(|_| end); }
                q = e; i += 1;
                if m == 6 { break; }
            }
        }
    }
    path.push(usize::MAX); // marker: `at` is in this item's own head / payload
    let _ = p;
    Some(end)
}
/// stable description of where and how a re-encoding differs from the on-chain bytes
fn iso_key(orig: &[u8], reenc: &[u8]) -> String {
    let at = orig.iter().zip(reenc.iter()).position(|(a, b)| a != b).unwrap_or(orig.len().min(reenc.len()));
    let mut path = vec![];
    let _ = locate(orig, 0, at, &mut path, 0);
    let own_head = path.last() == Some(&usize::MAX);
    if own_head { path.pop(); }
    // offset of the item the path names
    let mut p = 0usize; let mut ok = true;
    for &i in &path {
        let ib = orig[p]; let ai = ib & 31; let n = match ai { 24 => 1, 25 => 2, 26 => 4, 27 => 8, _ => 0 };
        let mut q = p + 1 + n;
        for _ in 0..i { match super::schema::item_end(orig, q, 0) { Some(e) => q = e, None => { ok = false; break } } }
        p = q;
    }
    let kind = if ok && p == at && matches!(orig.get(p), Some(0x9f) | Some(0xbf)) && reenc.get(at).map(|b| b >> 5) == Some(orig[p] >> 5) { "indef-container" }
        else if ok && p == at && matches!(orig.get(p).map(|b| b >> 5), Some(4) | Some(5)) { "container-head" } else { "bytes" };
    let shown: Vec<String> = path.iter().take(3).map(|i| i.to_string()).collect();
    format!("{kind}@{}", shown.join("."))
}
fn iso_viol(label: &str, name: &str, orig: &[u8], reenc: &[u8], out: &mut Out) {
    out.viol(format!("chain-iso {} {}", name, iso_key(orig, reenc)), format!("{label} decodes as {name} but re-encodes differently (first difference at byte {})",
        orig.iter().zip(reenc.iter()).position(|(a, b)| a != b).unwrap_or(orig.len().min(reenc.len()))));
}
macro_rules! op_iso { ($T:ty, $bytes:expr, $name:expr, $label:expr, $out:expr) => {{
    match minicbor::decode::<$T>($bytes) {
        Err(_) => Some("err dec".to_string()),
        Ok(v) => {
            let text = show_text(&v);
            let re = minicbor::to_vec(&v).unwrap_or_default();
            let same = re == $bytes;
            if !same { iso_viol($label, $name, $bytes, &re, $out); }
            Some(format!("ok {} {} {} {}", $name, if same { 1 } else { 0 }, text.split(' ').count(), fnv64(&text)))
        }
    }
}} }
macro_rules! op_reenc { ($T:ty, $bytes:expr) => {{
    match minicbor::decode::<(u16, $T)>($bytes) { Err(_) => Some("err dec".to_string()), Ok(v) => Some(format!("ok {}", hex(&minicbor::to_vec(&v).unwrap_or_default()))) }
}} }
macro_rules! op_wrapped { ($T:ty, $bytes:expr, $name:expr, $label:expr, $out:expr) => { op_iso!((u16, $T), $bytes, $name, $label, $out) } }
macro_rules! op_try { ($T:ty, $bytes:expr) => { Some(minicbor::decode::<$T>($bytes).is_ok()) } }

pub fn run_case(case: &Case, out: &mut Out) {
    for op in &case.ops {
        if op.len() != 3 { out.reply("bad-op".into()); continue; }
        let Some(bytes) = unhex(&op[2]) else { out.reply("bad-op".into()); continue };
        let label = op[1].as_str();
        let r = guard_mut(|| {
            let o = &mut *out;
            match op[0].as_str() {
                "blk" => {
                    let name = match MultiEraBlock::decode(&bytes) {
                        Err(_) => return "err dec".to_string(),
                        Ok(MultiEraBlock::EpochBoundary(_)) => "byron.EbBlock",
                        Ok(MultiEraBlock::Byron(_)) => "byron.Block",
                        Ok(MultiEraBlock::AlonzoCompatible(..)) => "alonzo.Block",
                        Ok(MultiEraBlock::Babbage(_)) => "babbage.Block",
                        Ok(MultiEraBlock::Conway(_)) => "conway.Block",
                        #[allow(unreachable_patterns)] Ok(_) => return "err dec".to_string(),
                    };
                    o.cov(format!("blk:{name}"));
                    let r: Option<String> = schema_dispatch!(name, op_wrapped, &bytes[..], name, label, o);
                    r.unwrap_or("bad-op".into())
                }
                "tx" => {
                    o.cov(format!("tx:{label}"));
                    if MultiEraTx::decode(&bytes).is_err() { o.viol(format!("chain-tx-undecodable {label}"), "MultiEraTx::decode rejects an on-chain transaction"); }
                    let r: Option<String> = schema_dispatch!(label, op_iso, &bytes[..], label, label, o);
                    r.unwrap_or("bad-op".into())
                }
                "reenc" => {
                    // debugging aid for replays: the re-encoding itself (`reenc <type> <hex>` of a `[tag, block]`)
                    let r: Option<String> = schema_dispatch!(label, op_reenc, &bytes[..]);
                    r.unwrap_or("bad-op unknown type".into())
                }
                "hdr" => {
                    o.cov(format!("hdr:{label}"));
                    let r: Option<String> = schema_dispatch!(label, op_iso, &bytes[..], label, label, o);
                    r.unwrap_or("bad-op unknown type".into())
                }
                _ => "bad-op".to_string(),
            }
        });
        match r { Some(l) => { if l.starts_with("ok") { out.nontrivial(); } out.reply(l) } None => out.panic() }
    }
}
