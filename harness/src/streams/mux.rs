//! stream `mux` — C20: segment framing and the connected pair of plexers of `pallas_network::multiplexer`
//! (plus the identical framing of `pallas_network2::bearer`) against `Model/Mux.lean`.
//!
//! Pure layer: header bytes both ways, `Muxer::mux` / `BearerWriteHalf::write_segment` observed as raw bytes on a
//! `UnixStream::pair`, `Demuxer::read_segment` / `BearerReadHalf::read_segment` fed with independently framed bytes.
//! Concurrent layer (`run`): two real `Plexer`s over a `UnixStream::pair`, spawned on a multi-thread runtime, up to 6
//! agents (both roles, both sides) sending concurrently with random yields; what every agent dequeues is compared with
//! the property oracle (= exactly the chunks its peer enqueued, in order) and with the model's conclusion.
use crate::fw::*;
use pallas_network::multiplexer as m1;
use pallas_network2::bearer as m2;
use std::time::Duration;
use tokio::io::{AsyncReadExt, AsyncWriteExt};
use tokio::net::UnixStream;

pub const NAME: &str = "mux";

fn gen_bytes(len: usize, seed: u64) -> Vec<u8> { (0..len).map(|i| (seed as usize + 7 * i + i / 256) as u8).collect() }
fn chunk_digest(b: &[u8]) -> u64 { b.iter().fold(7u64, |h, x| (h * 131 + *x as u64 + 1) % 4294967291) }
fn seq_digest(cs: &[Vec<u8>]) -> u64 {
    cs.iter().fold(0u128, |h, c| (h * 1000003 + chunk_digest(c) as u128 * 65537 + c.len() as u128) % 18446744073709551557u128) as u64
}
fn show_chunk(b: &[u8]) -> String { format!("{}:{}", b.len(), chunk_digest(b)) }
fn payload_of(s: &str) -> Option<Vec<u8>> { let (l, sd) = s.split_once(':')?; Some(gen_bytes(l.parse().ok()?, sd.parse().ok()?)) }

/// the oracle's own statement of the wire format (network spec: time32 ‖ mode+protocol16 ‖ length16, big endian)
fn spec_frame(ts: u32, proto: u16, payload: &[u8]) -> Vec<u8> {
    let mut v = vec![];
    v.extend(ts.to_be_bytes()); v.extend(proto.to_be_bytes()); v.extend((payload.len() as u16).to_be_bytes()); v.extend(payload);
    v
}
fn piece_of(s: &str) -> Option<Vec<u8>> {
    let p: Vec<&str> = s.split(':').collect();
    match p.as_slice() {
        ["f", ts, q, l, sd] => Some(spec_frame(ts.parse::<u64>().ok()? as u32, q.parse::<u64>().ok()? as u16, &gen_bytes(l.parse().ok()?, sd.parse().ok()?))),
        ["x", h] => unhex(h),
        _ => None,
    }
}

#[derive(Clone)]
struct Spec { side: usize, server: bool, proto: u16, seed: u64, chunks: Vec<Vec<u8>> }
fn spec_of(s: &str) -> Option<Spec> {
    let p: Vec<&str> = s.split(':').collect();
    if p.len() != 6 || p[0] != "a" { return None; }
    let side: usize = p[1].parse().ok()?;
    let server = match p[2] { "c" => false, "s" => true, _ => return None };
    let proto: u64 = p[3].parse().ok()?;
    let seed: u64 = p[4].parse().ok()?;
    let lens: Vec<usize> = if p[5] == "-" { vec![] } else { p[5].split(',').map(|x| x.parse().ok()).collect::<Option<Vec<_>>>()? };
    let chunks = lens.iter().enumerate().map(|(j, l)| gen_bytes(*l, seed + 13 * j as u64)).collect();
    Some(Spec { side: (side == 1) as usize, server, proto: proto as u16, seed, chunks })
}
fn wire_send(s: &Spec) -> u16 { if s.server { s.proto ^ 0x8000 } else { s.proto } }
fn wire_recv(s: &Spec) -> u16 { if s.server { s.proto } else { s.proto ^ 0x8000 } }

/// one multi-thread runtime for the whole process (building one per op costs more than the ops themselves)
fn rt() -> &'static tokio::runtime::Runtime {
    static RT: std::sync::OnceLock<tokio::runtime::Runtime> = std::sync::OnceLock::new();
    RT.get_or_init(|| tokio::runtime::Builder::new_multi_thread().worker_threads(4).enable_all().build().expect("runtime"))
}

const MARKER_PROTO: u16 = 0x7ffe;

/// real plexers; returns what each agent dequeued (+ anything that arrived beyond the expected count).
/// No clock decides the outcome: after the senders of a side have enqueued everything, a marker chunk is sent on a
/// reserved protocol in the same direction; muxer queue, bearer and demuxer are FIFO, so when the marker arrives every
/// earlier chunk has been routed to its queue, and a receiver whose `dequeue_chunk` is still pending after the marker has
/// nothing more to get.
fn run_pair(specs: &[Spec], _expected: &[usize]) -> Result<Vec<Vec<Vec<u8>>>, String> {
    let rt = rt();
    let res = rt.block_on(async {
        let (s0, s1) = UnixStream::pair().map_err(|e| e.to_string())?;
        let mut plex = [m1::Plexer::new(m1::Bearer::Unix(s0)), m1::Plexer::new(m1::Bearer::Unix(s1))];
        let mut handles = vec![];
        let mut senders = vec![];
        for (i, s) in specs.iter().enumerate() {
            // two handles per agent so that it can send and receive concurrently (`AgentChannel` needs `&mut self` for both):
            // the first subscription is used for `enqueue_chunk` only, the second (which replaces the first in the demuxer
            // table) for `dequeue_chunk` only.
            let (tx, rx) = if s.server { (plex[s.side].subscribe_server(s.proto), plex[s.side].subscribe_server(s.proto)) }
                           else { (plex[s.side].subscribe_client(s.proto), plex[s.side].subscribe_client(s.proto)) };
            senders.push((i, tx));
            handles.push((i, rx));
        }
        // markers: side s -> side 1-s
        let mut marker_tx = vec![];
        let mut marker_seen = vec![];
        let mut marker_tasks = vec![];
        for side in 0..2usize {
            let tx = plex[side].subscribe_client(MARKER_PROTO);
            let mut rx = plex[1 - side].subscribe_server(MARKER_PROTO);
            let (wtx, wrx) = tokio::sync::watch::channel(false);
            marker_tasks.push(tokio::spawn(async move { let _ = rx.dequeue_chunk().await; let _ = wtx.send(true); std::future::pending::<()>().await; drop(rx); }));
            marker_tx.push(Some(tx));
            marker_seen.push(wrx);   // marker_seen[side]: everything sent by `side` has been demuxed on the other side
        }
        let [p0, p1] = plex;
        let running = [p0.spawn(), p1.spawn()];
        let mut send_tasks: Vec<Vec<tokio::task::JoinHandle<Result<m1::AgentChannel, String>>>> = vec![vec![], vec![]];
        for (i, mut tx) in senders {
            let s = specs[i].clone();
            send_tasks[s.side].push(tokio::spawn(async move {
                let mut r = Rng::new(s.seed ^ 0x5eed);
                for c in s.chunks {
                    for _ in 0..r.below(3) { tokio::task::yield_now().await; }
                    if tx.enqueue_chunk(c).await.is_err() { return Err("enqueue failed".to_string()); }
                }
                Ok(tx)
            }));
        }
        let mut recv_tasks = vec![];
        for (i, mut rx) in handles {
            let seed = specs[i].seed;
            let mut seen = marker_seen[1 - specs[i].side].clone();
            recv_tasks.push(tokio::spawn(async move {
                let mut r = Rng::new(seed ^ 0xfeed);
                let mut got: Vec<Vec<u8>> = vec![];
                let mut marker = *seen.borrow();
                loop {
                    if r.chance(1, 3) { tokio::task::yield_now().await; }
                    if !marker {
                        tokio::select! {
                            biased;
                            c = rx.dequeue_chunk() => match c { Ok(c) => got.push(c), Err(_) => break },
                            _ = seen.changed() => { marker = true; }
                        }
                    } else {
                        let mut progressed = false;
                        for _ in 0..16 {
                            match futures::poll!(std::pin::pin!(rx.dequeue_chunk())) {
                                std::task::Poll::Ready(Ok(c)) => { got.push(c); progressed = true; break; }
                                std::task::Poll::Ready(Err(_)) => break,
                                std::task::Poll::Pending => tokio::task::yield_now().await,
                            }
                        }
                        if !progressed { break; }
                    }
                    if got.len() > 100_000 { break; }
                }
                (i, rx, got)
            }));
        }
        let mut keep = vec![];
        let mut err = None;
        for side in 0..2usize {
            for t in send_tasks[side].drain(..) {
                match t.await { Ok(Ok(tx)) => keep.push(tx), Ok(Err(e)) => err = Some(e), Err(e) => err = Some(format!("task panicked: {e}")) }
            }
            if let Some(mut tx) = marker_tx[side].take() { let _ = tx.enqueue_chunk(vec![0xAA]).await; keep.push(tx); }
        }
        let mut out: Vec<Vec<Vec<u8>>> = vec![vec![]; specs.len()];
        let all = async { for t in recv_tasks { match t.await { Ok((i, rx, got)) => { out[i] = got; keep.push(rx); } Err(e) => err = Some(format!("task panicked: {e}")) } } };
        if tokio::time::timeout(Duration::from_secs(120), all).await.is_err() { err = Some("timeout".into()); }
        drop(keep);
        for t in marker_tasks { t.abort(); }
        for r in running { r.abort().await; }
        match err { Some(e) => Err(e), None => Ok(out) }
    });
    res
}

fn gen_len(r: &mut Rng, budget: &mut usize) -> usize {
    let l = match r.below(12) {
        0 => 0, 1 => 1, 2 => 65535, 3 => 65534, 4 => r.range(7, 9) as usize, 5 => r.range(255, 257) as usize,
        6 => r.below(65536) as usize, _ => r.below(200) as usize,
    };
    let l = l.min(*budget);
    *budget -= l;
    l
}

pub fn generate(g: &mut Gen) {
    let thorough = g.thorough();
    for i in 0..g.cases {
        let mut ops = vec![];
        let r = &mut g.rng;
        if i % 3 != 0 {
            // pure layer
            for _ in 0..r.range(3, 10) {
                let proto = *r.pick(&[0u64, 2, 3, 8, 0x7fff, 0x8000, 0x8002, 0xffff, 258, 65535, 255, 256]);
                let mut budget = 200_000usize;
                ops.push(match r.below(12) {
                    0..=1 => format!("hdr {} {} {}", r.u64_edgy() as u32, proto, r.u64_edgy() as u16),
                    2 => { let n = *r.pick(&[0usize, 1, 7, 8, 9, 12]); format!("hdrdec {}", hex(&r.bytes(n))) }
                    3..=4 => format!("wseg {} {}:{}", proto, gen_len(r, &mut budget), r.below(256)),
                    5 => format!("wseg2 {} {} {}:{}", r.u64_edgy() as u32, proto, gen_len(r, &mut budget), r.below(256)),
                    6 => format!("wseg {} {}:{}", proto, *r.pick(&[65536usize, 65537, 70000]), r.below(256)),   // beyond the maximum: truncating cast
                    7..=9 => {
                        let n = r.range(1, 6);
                        let mut ps = vec![];
                        for _ in 0..n {
                            let q = *r.pick(&[0u64, 2, 3, 0x8002, 0xffff]);
                            ps.push(format!("f:{}:{}:{}:{}", r.u64_edgy() as u32, q, gen_len(r, &mut budget), r.below(256)));
                        }
                        match r.below(5) { 0 => { let k = r.below(12) as usize; ps.push(format!("x:{}", hex(&r.bytes(k)))); }  // trailing incomplete header / segment
                                           1 => ps.push(format!("x:{}", hex(&spec_frame(5, 2, &[1, 2, 3, 4])[..10]))),
                                           _ => {} }
                        format!("{} {}", if r.chance(1, 3) { "rseg2" } else { "rseg" }, ps.join(" "))
                    }
                    _ => format!("hdr {} {} {}", r.below(1 << 32), r.below(65536), r.below(65536)),
                });
            }
        } else {
            // concurrent layer
            let protos = [0u64, 2, 3, 5, 8, 0x7fff];
            let n_agents = r.range(2, 6) as usize;
            let max_chunks = if thorough { if r.chance(1, 4) { 200 } else { 60 } } else { 30 };
            let mut budget = if thorough { 6_000_000usize } else { 700_000 };
            let mut agents: Vec<(u64, bool, u64)> = vec![];
            while agents.len() < n_agents {
                let a = (r.below(2), r.chance(1, 2), *r.pick(&protos));
                if agents.contains(&a) { continue; }
                agents.push(a);
                let peer = (1 - a.0, !a.1, a.2);
                if agents.len() < n_agents && r.chance(5, 6) && !agents.contains(&peer) { agents.push(peer); }
            }
            let mut toks = vec![];
            for (side, server, proto) in agents {
                let n = match r.below(5) { 0 => 0, 1 => r.range(1, 3), _ => r.range(1, max_chunks) };
                let lens: Vec<String> = (0..n).map(|_| gen_len(r, &mut budget).to_string()).collect();
                toks.push(format!("a:{}:{}:{}:{}:{}", side, if server { "s" } else { "c" }, proto, r.below(1000), if lens.is_empty() { "-".into() } else { lens.join(",") }));
            }
            ops.push(format!("run {}", toks.join(" ")));
        }
        g.case(ops);
    }
}

pub fn run_case(case: &Case, out: &mut Out) {
    let mut nontrivial = false;
    for op in &case.ops {
        let num = |i: usize| -> u64 { op.get(i).and_then(|s| s.parse::<u64>().ok()).unwrap_or(0) };
        match op[0].as_str() {
            "hdr" => {
                let (ts, q, l) = (num(1) as u32, num(2) as u16, num(3) as u16);
                let b1: [u8; 8] = m1::Header { protocol: q, timestamp: ts, payload_len: l }.into();
                let b2: [u8; 8] = m2::Header { protocol: q, timestamp: ts, payload_len: l }.into();
                let d1 = m1::Header::from(&b1[..]);
                let d2 = m2::Header::from(&b2[..]);
                if b1 != b2 || (d2.timestamp, d2.protocol, d2.payload_len) != (ts, q, l) { out.viol("header-network2", format!("{} vs {}", hex(&b1), hex(&b2))); }
                if (d1.timestamp, d1.protocol, d1.payload_len) != (ts, q, l) || b1[..6] != spec_frame(ts, q, &[])[..6] || b1[6..8] != l.to_be_bytes() {
                    out.viol("header-roundtrip", format!("{ts} {q} {l} -> {} -> {} {} {}", hex(&b1), d1.timestamp, d1.protocol, d1.payload_len));
                }
                out.ok(format!("{} {} {} {}", hex(&b1), d1.timestamp, d1.protocol, d1.payload_len));
            }
            "hdrdec" => {
                let Some(b) = unhex(&op[1]) else { out.reply("bad-op".into()); continue; };
                match guard(|| m1::Header::from(&b[..])) { Some(d) => out.ok(format!("{} {} {}", d.timestamp, d.protocol, d.payload_len)), None => out.panic() }
            }
            "wseg" | "wseg2" => {
                let two = op[0] == "wseg2";
                let (ts, q, pl) = if two { (num(1) as u32, num(2) as u16, op.get(3)) } else { (0, num(1) as u16, op.get(2)) };
                let Some(p) = pl.and_then(|s| payload_of(s)) else { out.reply("bad-op".into()); continue; };
                let n = p.len();
                let p2 = p.clone();
                let raw: Result<Vec<u8>, String> = rt().block_on(async move {
                    let (a, mut b) = UnixStream::pair().map_err(|e| e.to_string())?;
                    let reader = tokio::spawn(async move { let mut buf = vec![0u8; 8 + n]; b.read_exact(&mut buf).await.map(|_| buf).map_err(|e| e.to_string()) });
                    if two {
                        let (_r, mut w) = m2::Bearer::Unix(a).into_split();
                        w.write_segment(q, ts, &p2).await.map_err(|e| e.to_string())?;
                        let got = reader.await.map_err(|e| e.to_string())?;
                        drop(w); got
                    } else {
                        let (_r, w) = m1::Bearer::Unix(a).into_split();
                        let mut mux = m1::Muxer::new(w);
                        mux.mux((q, p2)).await.map_err(|e| format!("{e:?}"))?;
                        let got = reader.await.map_err(|e| e.to_string())?;
                        drop(mux); got
                    }
                });
                match raw {
                    Ok(w) => {
                        // oracle: within the segment maximum the bytes on the bearer are the specified frame (timestamp free for network1)
                        if n <= 65535 {
                            let want = spec_frame(ts, q, &p);
                            if w[4..] != want[4..] || (two && w[..4] != want[..4]) { out.viol("framing-write", format!("proto {q} len {n}: header {}", hex(&w[..8]))); }
                        } else { out.cov("oversize-chunk"); }
                        if two { out.ok(format!("{} {}", hex(&w[..8]), show_chunk(&w[8..]))) } else { out.ok(format!("{} {}", hex(&w[4..8]), show_chunk(&w[8..]))) }
                    }
                    Err(e) => out.err("io"),
                }
            }
            "rseg" | "rseg2" => {
                let two = op[0] == "rseg2";
                let Some(pieces) = op[1..].iter().map(|s| piece_of(s)).collect::<Option<Vec<_>>>() else { out.reply("bad-op".into()); continue; };
                let wire: Vec<u8> = pieces.concat();
                let got: Vec<(u16, Vec<u8>)> = rt().block_on(async move {
                    let (mut a, b) = UnixStream::pair().unwrap();
                    let writer = tokio::spawn(async move { let _ = a.write_all(&wire).await; let _ = a.shutdown().await; });
                    let mut segs = vec![];
                    if two {
                        let (mut r, _w) = m2::Bearer::Unix(b).into_split();
                        while let Ok(s) = r.read_segment().await { segs.push(s); }
                    } else {
                        let (r, _w) = m1::Bearer::Unix(b).into_split();
                        let mut d = m1::Demuxer::new(r);
                        while let Ok(s) = d.read_segment().await { segs.push(s); }
                    }
                    let _ = writer.await;
                    segs
                });
                // oracle: the complete, within-maximum frames that were written come back, in order
                let want: Vec<(u16, usize)> = op[1..].iter().take_while(|s| s.starts_with("f:")).filter_map(|s| { let p: Vec<&str> = s.split(':').collect(); Some((p[2].parse::<u64>().ok()? as u16, p[3].parse::<usize>().ok()?)) }).collect();
                if want.iter().all(|w| w.1 <= 65535) {
                    let gotk: Vec<(u16, usize)> = got.iter().take(want.len()).map(|(q, p)| (*q, p.len())).collect();
                    if gotk != want { out.viol("framing-read", format!("expected {:?} got {:?}", want, gotk)); }
                }
                out.ok(format!("[{}]", got.iter().map(|(q, p)| format!("{}:{}", q, show_chunk(p))).collect::<Vec<_>>().join(" ")));
            }
            "run" => {
                let Some(specs) = op[1..].iter().map(|s| spec_of(s)).collect::<Option<Vec<_>>>() else { out.reply("bad-op".into()); continue; };
                // ---- property oracle: every agent receives exactly what its peer (other side, opposite role, same protocol) enqueued
                let expect: Vec<Vec<Vec<u8>>> = specs.iter().map(|b| specs.iter().find(|a| a.side != b.side && a.server != b.server && a.proto == b.proto).map(|a| a.chunks.clone()).unwrap_or_default()).collect();
                let counts: Vec<usize> = expect.iter().map(|e| e.len()).collect();
                match run_pair(&specs, &counts) {
                    Ok(got) => {
                        for (i, b) in specs.iter().enumerate() {
                            if got[i] != expect[i] {
                                let kind = if got[i].len() < expect[i].len() && expect[i].starts_with(&got[i]) { "missing" }
                                           else if got[i].iter().any(|c| !expect[i].contains(c)) { "leak" } else { "order-or-duplicate" };
                                out.viol(format!("delivery-{kind}"), format!("agent side={} role={} proto={} received {} chunks (digest {}), its peer sent {} (digest {})",
                                    b.side, if b.server { "server" } else { "client" }, b.proto, got[i].len(), seq_digest(&got[i]), expect[i].len(), seq_digest(&expect[i])));
                            }
                        }
                        let total: usize = specs.iter().map(|s| s.chunks.len()).sum();
                        let dirs: Vec<(usize, u16)> = specs.iter().filter(|s| !s.chunks.is_empty()).map(|s| (s.side, wire_send(s))).collect();
                        let multi = dirs.iter().any(|a| dirs.iter().any(|b| a.0 == b.0 && a.1 != b.1));
                        if multi && total >= 10 { nontrivial = true; }
                        out.cov(format!("agents:{}", specs.len()));
                        if specs.iter().any(|s| s.chunks.iter().any(|c| c.len() == 65535)) { out.cov("max-size-chunk"); }
                        if specs.iter().any(|b| !specs.iter().any(|a| a.side != b.side && a.server != b.server && a.proto == b.proto) && !b.chunks.is_empty()) { out.cov("unsubscribed-peer"); }
                        out.ok(got.iter().map(|g| format!("{}:{}", g.len(), seq_digest(g))).collect::<Vec<_>>().join(" "));
                    }
                    Err(e) => out.err("run"),
                }
            }
            _ => out.reply("bad-op".into()),
        }
    }
    if case.ops.iter().any(|o| o[0] == "rseg" || o[0] == "rseg2") && case.ops.iter().any(|o| o[0].starts_with("wseg")) { nontrivial = true; }
    if nontrivial { out.nontrivial(); }
}
