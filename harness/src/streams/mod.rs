//! One file per stream in this directory; `build.rs` generates the registry.
include!(concat!(env!("OUT_DIR"), "/registry.rs"));
