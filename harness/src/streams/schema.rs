//! stream `schema` — C06: era ledger codecs, generated values per type.
//!   enc <Type> <seed> <value text..>   the value is regenerated from (Type, seed) and must print as the given text;
//!                                      reply = hex of `minicbor::to_vec`
//!   dec <Type> <hex>                   reply = value text of `minicbor::decode` (raws included)
//! The Lean side interprets the translated schema of <Type> on the same value text / bytes.
//! Oracle (independent of the model): the encoding is exactly one well-formed CBOR item (own strict
//! checker below), decodes, prints as the original value up to retained raws, and re-encodes to itself.
use crate::fw::*;
use pallas_codec::minicbor;

#[path = "../fixtures/schema_traits.rs"] pub mod schema_traits;
use schema_traits::*;
#[macro_use] #[path = "../fixtures/schema_gen.rs"] pub mod schema_gen;
use schema_gen::TYPE_NAMES;

pub const NAME: &str = "schema";

// ---- strict well-formedness of one CBOR item (RFC 8949 syntax; no typed knowledge) ----
pub fn head(b: &[u8], p: usize) -> Option<(u8, u8, u64, usize)> {
    let ib = *b.get(p)?;
    let (m, ai) = (ib >> 5, ib & 31);
    let n = match ai { 0..=23 => 0, 24 => 1, 25 => 2, 26 => 4, 27 => 8, 31 => 0, _ => return None };
    if p + 1 + n > b.len() { return None; }
    let mut v = 0u64;
    for i in 0..n { v = (v << 8) | b[p + 1 + i] as u64; }
    Some((m, ai, if ai < 24 { ai as u64 } else { v }, p + 1 + n))
}
/// end position of the item starting at `p`, if well formed
pub fn item_end(b: &[u8], p: usize, depth: u32) -> Option<usize> {
    if depth > 512 { return None; }
    let (m, ai, v, q) = head(b, p)?;
    match m {
        0 | 1 | 7 => if ai == 31 { None } else { Some(q) },
        2 | 3 => {
            if ai == 31 {
                let mut q = q;
                loop {
                    if *b.get(q)? == 0xff { return Some(q + 1); }
                    let (m2, ai2, v2, q2) = head(b, q)?;
                    if m2 != m || ai2 == 31 { return None; }
                    let e = q2.checked_add(usize::try_from(v2).ok()?)?;
                    if e > b.len() { return None; }
                    q = e;
                }
            } else { let e = q.checked_add(usize::try_from(v).ok()?)?; if e > b.len() { None } else { Some(e) } }
        }
        4 | 5 => {
            let mut q = q;
            if ai == 31 {
                let mut n = 0u64;
                loop {
                    if *b.get(q)? == 0xff { return if m == 5 && n % 2 == 1 { None } else { Some(q + 1) }; }
                    q = item_end(b, q, depth + 1)?; n += 1;
                }
            } else {
                let n = if m == 4 { v } else { v.checked_mul(2)? };
                for _ in 0..n { q = item_end(b, q, depth + 1)?; }
                Some(q)
            }
        }
        _ => if ai == 31 { None } else { item_end(b, q, depth + 1) },
    }
}
pub fn single_item(b: &[u8]) -> bool { item_end(b, 0, 0) == Some(b.len()) }

// ---- well-formedness preserving rewrites of an encoding (type-agnostic): the typed decoders must treat them
// the same way on both sides. Heads are widened (ints, lengths, tags: minicbor reads any width); definite maps
// become indefinite. Arrays are left alone: the hand-written `[variant, field..]` decoders of pallas do not read
// the break of an indefinite array (a read-through the tree model cannot express), and derived flat enums /
// tuples reject it, so that rewrite would mostly produce errors.
fn widen(out: &mut Vec<u8>, major: u8, v: u64, r: &mut Rng) {
    let min = if v < 24 { 0 } else if v < 256 { 1 } else if v < 65536 { 2 } else if v < (1u64 << 32) { 3 } else { 4 };
    let w = if r.chance(1, 3) { r.range(min, 4) } else { min };
    match w {
        0 => out.push((major << 5) | v as u8),
        1 => { out.push((major << 5) | 24); out.push(v as u8); }
        2 => { out.push((major << 5) | 25); out.extend((v as u16).to_be_bytes()); }
        3 => { out.push((major << 5) | 26); out.extend((v as u32).to_be_bytes()); }
        _ => { out.push((major << 5) | 27); out.extend(v.to_be_bytes()); }
    }
}
/// rewrite the item at `p`, return its end
fn rewrite(b: &[u8], p: usize, out: &mut Vec<u8>, r: &mut Rng) -> Option<usize> {
    let (m, ai, v, q) = head(b, p)?;
    match m {
        0 | 1 | 6 => {
            if ai == 31 { return None; }
            widen(out, m, v, r);
            if m == 6 { rewrite(b, q, out, r) } else { Some(q) }
        }
        7 => { out.extend(&b[p..q]); Some(q) }
        2 | 3 => {
            if ai == 31 { let e = item_end(b, p, 0)?; out.extend(&b[p..e]); return Some(e); }
            widen(out, m, v, r);
            let e = q + v as usize; out.extend(&b[q..e]); Some(e)
        }
        _ => {
            if ai == 31 { let e = item_end(b, p, 0)?; out.extend(&b[p..e]); return Some(e); }
            let n = if m == 4 { v } else { v * 2 };
            let indef = m == 5 && r.chance(1, 3);
            // a map may repeat its last entry (the typed decoders differ in what a duplicate key means:
            // last assignment wins for derived structs and BTreeMap, both entries stay in KeyValuePairs)
            let dup = m == 5 && v >= 1 && v < u64::MAX && r.chance(1, 6);
            if indef { out.push(0xbf); } else { widen(out, m, if dup { v + 1 } else { v }, r); }
            let mut q = q;
            let mut last = out.len();
            for i in 0..n { if m == 5 && i % 2 == 0 { last = out.len(); } q = rewrite(b, q, out, r)?; }
            if dup { let rep = out[last..].to_vec(); out.extend(rep); }
            if indef { out.push(0xff); }
            Some(q)
        }
    }
}
pub fn variant_encoding(b: &[u8], r: &mut Rng) -> Option<Vec<u8>> {
    let mut out = vec![];
    let e = rewrite(b, 0, &mut out, r)?;
    if e == b.len() && out != b { Some(out) } else { None }
}

/// value text with every retained raw forgotten
fn strip_raws(t: &str) -> String {
    t.split(' ').map(|x| if x.starts_with('r') { "r-" } else { x }).collect::<Vec<_>>().join(" ")
}

macro_rules! op_gen { ($T:ty, $g:expr) => {{ let v: $T = <$T as Arb>::arb($g, 0); Some((show_text(&v), minicbor::to_vec(&v).ok())) }} }
macro_rules! op_enc { ($T:ty, $seed:expr, $text:expr, $out:expr, $name:expr) => {{
    let mut g = Rng::new($seed);
    let v: $T = <$T as Arb>::arb(&mut g, 0);
    let text = show_text(&v);
    if &text != $text { Some("bad-op value text does not match the seed".to_string()) } else {
        match minicbor::to_vec(&v) {
            Err(_) => Some("err enc".to_string()),
            Ok(bytes) => {
                if !single_item(&bytes) { $out.viol(format!("wf {}", $name), format!("encoding of {} is not exactly one well-formed item: {}", text, hex(&bytes))); }
                match minicbor::decode::<$T>(&bytes) {
                    Err(e) => { $out.viol(format!("rt-decode {}", $name), format!("encoding of {} = {} does not decode", text, hex(&bytes))); let _ = e; }
                    Ok(v2) => {
                        let t2 = strip_raws(&show_text(&v2));
                        if t2 != strip_raws(&text) { $out.viol(format!("rt-value {}", $name), format!("{} encodes to {} which decodes to {}", text, hex(&bytes), t2)); }
                        match minicbor::to_vec(&v2) { Ok(b2) if b2 == bytes => {}, _ => $out.viol(format!("rt-reencode {}", $name), format!("decoded {} does not re-encode to {}", text, hex(&bytes))) }
                    }
                }
                Some(format!("ok {}", hex(&bytes)))
            }
        }
    }
}} }
macro_rules! op_dec { ($T:ty, $bytes:expr) => {{
    match minicbor::decode::<$T>($bytes) { Ok(v) => Some(format!("ok {}", show_text(&v))), Err(_) => Some("err dec".to_string()) }
}} }

pub fn generate(g: &mut Gen) {
    // PV_SCHEMA_ONLY=a,b restricts the generator to these types (failing-input search after a codec changed)
    let only: Vec<String> = std::env::var("PV_SCHEMA_ONLY").ok().map(|s| s.split(',').map(|x| x.trim().to_string()).filter(|x| !x.is_empty()).collect()).unwrap_or_default();
    let names: Vec<&str> = TYPE_NAMES.iter().copied().filter(|t| only.is_empty() || only.iter().any(|o| o == t)).collect();
    let n = names.len();
    if n == 0 { return; }
    for i in 0..g.cases {
        let name = names[i % n];
        let seed = g.rng.next() >> 1;
        let mut r = Rng::new(seed);
        let Some((text, bytes)): Option<(String, Option<Vec<u8>>)> = schema_dispatch!(name, op_gen, &mut r) else { continue };
        let mut ops = vec![format!("enc {name} {seed} {text}")];
        if let Some(b) = bytes {
            ops.push(format!("dec {name} {}", hex(&b)));
            // the same value under a different (still well-formed) encoding; not for values that hold an opaque
            // PlutusData item (`a..` token): its value text is a re-encoding, which does not keep head widths (C07)
            if !text.split(' ').any(|t| t.starts_with('a')) {
                if let Some(b2) = variant_encoding(&b, &mut r) { if single_item(&b2) { ops.push(format!("dec {name} {}", hex(&b2))); } }
            }
        }
        g.case(ops);
    }
}

pub fn run_case(case: &Case, out: &mut Out) {
    for op in &case.ops {
        match op[0].as_str() {
            "enc" if op.len() >= 4 => {
                let name = op[1].as_str();
                let seed: u64 = op[2].parse().unwrap_or(0);
                let text = op[3..].join(" ");
                let r = guard_mut(|| { let o = &mut *out; schema_dispatch!(name, op_enc, seed, &text, o, name) });
                match r { Some(Some(l)) => out.reply(l), Some(None) => out.reply("bad-op unknown type".into()), None => out.panic() }
                out.cov(format!("type:{name}"));
                if op.len() >= 8 { out.nontrivial(); }
            }
            "dec" if op.len() == 3 => {
                let name = op[1].as_str();
                let Some(bytes) = unhex(&op[2]) else { out.reply("bad-op".into()); continue };
                let r = guard(|| schema_dispatch!(name, op_dec, &bytes));
                match r { Some(Some(l)) => out.reply(l), Some(None) => out.reply("bad-op unknown type".into()), None => out.panic() }
            }
            _ => out.reply("bad-op".into()),
        }
    }
}
