//! stream `p2p_events` — C29 (initiator half): arbitrary interface-event sequences, mostly
//! protocol-violating messages of all eight mini-protocols, disconnects and errors in any order,
//! several peers, against the real `InitiatorBehavior` and the Lean model. Oracle: the property
//! itself — handling an event must not panic, and the behaviour must keep answering afterwards.
use crate::fw::*;
#[path = "../fixtures/p2p.rs"]
mod p2p;
use p2p::{Init, Step};

pub const NAME: &str = "p2p_events";

pub const MSGS: [&str; 41] = [
    "hs.propose", "hs.accept:13:1", "hs.accept:15:1", "hs.accept:14:x", "hs.refuse", "hs.query",
    "ka.keepalive:65535", "ka.resp:65535", "ka.resp:1", "ka.done",
    "ps.req:5", "ps.peers:1,2,30", "ps.peers:-", "ps.done",
    "bf.req:4", "bf.clientdone", "bf.start", "bf.noblocks", "bf.block:9", "bf.batchdone",
    "cs.reqnext", "cs.await", "cs.fwd:3", "cs.bwd:2", "cs.find", "cs.found:1", "cs.notfound", "cs.done",
    "tx.init", "tx.reqids", "tx.replyids", "tx.reqtxs", "tx.replytxs:2", "tx.done",
    "ln.reqnext", "ln.offer", "ln.votes", "lf.blockreq:5", "lf.block", "lf.txsreq:6", "lf.blocktxs",
];

fn gen_case(g: &mut Gen, peers: u64, len: usize) -> Vec<String> {
    let mut ops = vec![format!("cfg {} {} {} {}", g.rng.range(1, peers + 1), g.rng.range(1, 4), g.rng.range(1, 3), g.rng.range(0, 2))];
    if g.rng.chance(1, 2) { ops.push("startsync".into()); }
    while ops.len() < len + 1 {
        let p = g.rng.below(peers);
        let m = |g: &mut Gen| g.rng.pick(&MSGS).to_string();
        match g.rng.below(32) {
            0..=2 => ops.push(format!("include {p}")),
            3..=6 => ops.push(if g.rng.chance(1, 3) { "idle".into() } else { "hk".into() }),
            7..=9 => ops.push(format!("connected {p}")),
            10..=11 => { ops.push(format!("sent {p} hs.propose")); let v = *g.rng.pick(&[13, 15]); ops.push(format!("recv {p} hs.accept:{v}:1")); }
            12..=17 => { let k = g.rng.range(1, 3); let ms: Vec<String> = (0..k).map(|_| m(g)).collect(); ops.push(format!("recv {p} {}", ms.join(" "))); }
            18..=21 => { let x = m(g); ops.push(format!("sent {p} {x}")); }
            22..=23 => ops.push(format!("disconnected {p}")),
            24..=25 => ops.push(format!("error {p}")),
            26 => ops.push(format!("ban {p}")),
            27 => ops.push(format!("demote {p}")),
            28 => ops.push(format!("continuesync {p}")),
            29 => ops.push(format!("reqblocks {}", g.rng.below(9))),
            30 => ops.push(if g.rng.chance(1, 2) { format!("fetcheb {p} 5") } else { format!("fetchebtxs {p} 6") }),
            _ => ops.push("sendtx".into()),
        }
    }
    ops
}

pub fn generate(g: &mut Gen) {
    // DESIGN §6 #17 witness: a second Connected after the proposal was sent
    g.case(["cfg 4 2 2 1", "include 1", "hk", "connected 1", "sent 1 hs.propose", "connected 1", "hk"].map(String::from));
    for i in 0..g.cases {
        let (peers, len) = match i % 3 { 0 => (2, g.rng.range(5, 30)), 1 => (5, g.rng.range(20, 120)), _ => (8, g.rng.range(100, 300)) };
        let ops = gen_case(g, peers, len as usize);
        g.case(ops);
    }
}

pub fn run_case(case: &Case, out: &mut Out) {
    let mut it: Option<Init> = None;
    let (mut viols, mut inits, mut msgs) = (0, 0, 0);
    for op in &case.ops {
        if op[0] == "cfg" && op.len() == 5 {
            let v: Vec<u64> = op[1..].iter().filter_map(|x| x.parse().ok()).collect();
            if v.len() != 4 { out.reply("bad-op".into()); continue; }
            let i = Init::new(v[0] as usize, v[1] as usize, v[2] as usize, v[3] as u32);
            out.ok(i.state_text(&[]));
            it = Some(i);
            continue;
        }
        let Some(i) = it.as_mut() else { out.reply("bad-op".into()); continue; };
        match i.exec(op) {
            Step::Bad => out.reply("bad-op".into()),
            Step::Dead => out.reply("dead".into()),
            Step::Panic => {
                // ---- the property: no panic on any event ----
                let what = if op[0] == "recv" || op[0] == "sent" { format!("{} {}", op[0], op.get(2).map(|m| m.split(':').next().unwrap_or("")).unwrap_or("")) } else { op[0].clone() };
                out.viol(format!("panic initiator {}", what), format!("InitiatorBehavior panicked on {:?}", op));
                out.panic();
            }
            Step::Ok { annot, outs } => {
                if op[0] == "recv" || op[0] == "sent" { msgs += 1; }
                let text = i.state_text(&outs);
                if text.contains(":v1:") { viols += 1; }
                if outs.iter().any(|o| o.text().starts_with("ev.init")) { inits += 1; }
                out.ok(format!("{}{}", annot, text));
            }
        }
    }
    if viols > 0 { out.cov("violation-flagged"); }
    if inits > 0 { out.cov("peer-initialized"); }
    if viols > 0 && inits > 0 && msgs >= 5 { out.nontrivial(); }
}
