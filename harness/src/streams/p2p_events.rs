//! stream `p2p_events` — C29 (initiator half): arbitrary interface-event sequences, mostly
//! protocol-violating messages of all eight mini-protocols, disconnects and errors in any order,
//! several peers, against the real `InitiatorBehavior` and the Lean model. Oracle: the property
//! itself — handling an event must not panic, and the behaviour must keep answering afterwards.
use crate::fw::*;
#[path = "../fixtures/p2p.rs"]
mod p2p;
use p2p::{Init, Step};

pub const NAME: &str = "p2p_events";

pub const MSGS: [&str; 42] = [
    "tx.reqidsnb",
    "hs.propose", "hs.accept:13:1", "hs.accept:15:1", "hs.accept:14:x", "hs.refuse", "hs.query",
    "ka.keepalive:65535", "ka.resp:65535", "ka.resp:1", "ka.done",
    "ps.req:5", "ps.peers:1,2,30", "ps.peers:-", "ps.done",
    "bf.req:4", "bf.clientdone", "bf.start", "bf.noblocks", "bf.block:9", "bf.batchdone",
    "cs.reqnext", "cs.await", "cs.fwd:3", "cs.bwd:2", "cs.find", "cs.found:1", "cs.notfound", "cs.done",
    "tx.init", "tx.reqids", "tx.replyids", "tx.reqtxs", "tx.replytxs:2", "tx.done",
    "ln.reqnext", "ln.offer", "ln.votes", "lf.blockreq:5", "lf.block", "lf.txsreq:6", "lf.blocktxs",
];

fn gen_case(g: &mut Gen, peers: u64, len: usize) -> Vec<String> {
    let mut ops = vec![format!("cfg {} {} {} {}", g.rng.range(1, peers + 1), g.rng.range(1, 4), g.rng.range(1, 3), g.rng.range(0, 2))];
    if g.rng.chance(1, 2) { ops.push("startsync".into()); }
    while ops.len() < len + 1 {
        let p = g.rng.below(peers);
        let m = |g: &mut Gen| g.rng.pick(&MSGS).to_string();
        match g.rng.below(32) {
            0..=2 => ops.push(format!("include {p}")),
            3..=6 => ops.push(if g.rng.chance(1, 3) { "idle".into() } else { "hk".into() }),
            7..=9 => ops.push(format!("connected {p}")),
            10..=11 => { ops.push(format!("sent {p} hs.propose")); let v = *g.rng.pick(&[13, 15]); ops.push(format!("recv {p} hs.accept:{v}:1")); }
            12..=17 => { let k = g.rng.range(1, 3); let ms: Vec<String> = (0..k).map(|_| m(g)).collect(); ops.push(format!("recv {p} {}", ms.join(" "))); }
            18..=21 => { let x = m(g); ops.push(format!("sent {p} {x}")); }
            22..=23 => ops.push(format!("disconnected {p}")),
            24..=25 => ops.push(format!("error {p}")),
            26 => ops.push(format!("ban {p}")),
            27 => ops.push(format!("demote {p}")),
            28 => ops.push(format!("continuesync {p}")),
            29 => ops.push(format!("reqblocks {}", g.rng.below(9))),
            30 => ops.push(if g.rng.chance(1, 2) { format!("fetcheb {p} 5") } else { format!("fetchebtxs {p} 6") }),
            _ => ops.push("sendtx".into()),
        }
    }
    ops
}

/// id list `base..base+n` as a SharePeers payload
fn peers_tok(base: u64, n: u64) -> String {
    if n == 0 { "ps.peers:-".into() } else { format!("ps.peers:{}", (base..base + n).map(|x| x.to_string()).collect::<Vec<_>>().join(",")) }
}

/// discovery-pool family: 1..3 handshaked peer-sharing peers are asked in the same housekeeping round and answer with
/// 0..300 addresses each (distinct or overlapping ranges, more than asked for included), so `discovered.len()` crosses
/// the high water mark (100) and `max_peers - total` (small limits) between two housekeeping passes
fn gen_discovery_case(g: &mut Gen) -> Vec<String> {
    const SIZES: [u64; 12] = [0, 1, 2, 50, 99, 100, 101, 120, 150, 200, 255, 300];
    let k = g.rng.range(1, 3);
    let mut ops = vec![format!("cfg {} {} {} {}", g.rng.range(k, k + 6), k, k, g.rng.range(0, 2))];
    for p in 0..k {
        for o in [format!("include {p}"), "hk".to_string(), format!("connected {p}"), format!("sent {p} hs.propose"),
                  format!("recv {p} hs.accept:{}:1", *g.rng.pick(&[13, 15]))] { ops.push(o); }
    }
    for round in 0..g.rng.range(1, 3) {
        ops.push(if g.rng.chance(1, 3) { "idle".into() } else { "hk".into() });
        for p in 0..k { ops.push(format!("sent {p} ps.req:{}", *g.rng.pick(&[100u64, 100, 50, 1]))); }
        for p in 0..k {
            let n = if g.rng.chance(1, 4) { g.rng.below(301) } else { *g.rng.pick(&SIZES) };
            // overlapping (same base), adjacent, or far apart
            let base = match g.rng.below(3) { 0 => 1000, 1 => 1000 + p * 60, _ => 1000 + 400 * p + 1300 * round };
            if g.rng.chance(1, 6) { ops.push("hk".into()); }
            ops.push(format!("recv {p} {}", peers_tok(base, n)));
        }
        for _ in 0..g.rng.range(1, 3) { ops.push(if g.rng.chance(1, 3) { "idle".into() } else { "hk".into() }); }
        if g.rng.chance(1, 3) { let p = g.rng.below(k); ops.push(format!("disconnected {p}")); ops.push(format!("include {}", 1000 + g.rng.below(300))); }
        if g.rng.chance(1, 3) { ops.push(format!("error {}", g.rng.below(k))); ops.push("hk".into()); }
    }
    ops
}

/// counter / capacity families: every unchecked subtraction or increment of the behaviour files gets inputs on both
/// sides of its guard. `limits`: more peers than max_peers / max_warm / max_hot (required_*, peer_deficit);
/// `errors`: error storms far beyond max_error_count, before and after the ban; `queues`: block / EB request queues
/// longer than the number of peers, purged by disconnects and errors.
fn gen_counter_case(g: &mut Gen, family: u64) -> Vec<String> {
    let mut ops = vec![];
    match family {
        0 => {
            let (mp, mw, mh) = (g.rng.range(1, 3), g.rng.range(1, 2), g.rng.range(1, 2));
            ops.push(format!("cfg {mp} {mw} {mh} 0"));
            for p in 0..8u64 { ops.push(format!("include {p}")); if g.rng.chance(1, 3) { ops.push("hk".into()); } }
            for _ in 0..g.rng.range(10, 40) {
                let p = g.rng.below(8);
                ops.push(match g.rng.below(8) {
                    0..=2 => "hk".into(), 3 => format!("connected {p}"), 4 => format!("recv {p} hs.accept:13:1"),
                    5 => format!("sent {p} hs.propose"), 6 => format!("ban {p}"), _ => format!("disconnected {p}"),
                });
            }
        }
        1 => {
            ops.push(format!("cfg 4 2 2 {}", g.rng.range(0, 3)));
            for p in 0..2u64 { for o in [format!("include {p}"), "hk".to_string(), format!("connected {p}")] { ops.push(o); } }
            for _ in 0..g.rng.range(5, 60) {
                let p = g.rng.below(3);
                ops.push(match g.rng.below(6) { 0..=3 => format!("error {p}"), 4 => "hk".into(), _ => format!("disconnected {p}") });
            }
        }
        _ => {
            ops.push("cfg 4 3 3 1".into());
            for p in 0..3u64 {
                for o in [format!("include {p}"), "hk".to_string(), format!("connected {p}"), format!("sent {p} hs.propose"),
                          format!("recv {p} hs.accept:15:1"), "hk".to_string()] { ops.push(o); }
            }
            for _ in 0..g.rng.range(10, 50) {
                let p = g.rng.below(4);
                ops.push(match g.rng.below(10) {
                    0..=2 => format!("reqblocks {}", g.rng.below(20)), 3..=4 => format!("fetcheb {p} {}", g.rng.below(9)),
                    5 => format!("fetchebtxs {p} {}", g.rng.below(9)), 6..=7 => if g.rng.chance(1, 2) { "hk".into() } else { "idle".into() },
                    8 => format!("disconnected {p}"), _ => format!("error {p}"),
                });
            }
        }
    }
    ops
}

pub fn generate(g: &mut Gen) {
    // DESIGN §6 #17 witness: a second Connected after the proposal was sent
    g.case(["cfg 4 2 2 1", "include 1", "hk", "connected 1", "sent 1 hs.propose", "connected 1", "hk"].map(String::from));
    // one honest peer answering ShareRequest(100) with 150 addresses; two honest peers answering 100 each in one round
    let up = |p: u64| [format!("include {p}"), "hk".to_string(), format!("connected {p}"), format!("sent {p} hs.propose"), format!("recv {p} hs.accept:13:1")];
    let mut w1: Vec<String> = vec!["cfg 4 2 2 1".into()];
    w1.extend(up(0)); w1.push("hk".into()); w1.push("sent 0 ps.req:100".into()); w1.push(format!("recv 0 {}", peers_tok(1000, 150))); w1.push("hk".into()); w1.push("hk".into());
    g.case(w1);
    let mut w2: Vec<String> = vec!["cfg 4 2 2 1".into()];
    w2.extend(up(0)); w2.extend(up(1)); w2.push("hk".into());
    for p in 0..2 { w2.push(format!("sent {p} ps.req:100")); }
    for p in 0..2u64 { w2.push(format!("recv {p} {}", peers_tok(1000 + 100 * p, 100))); }
    w2.push("idle".into()); w2.push("hk".into());
    g.case(w2);
    for _ in 0..(g.cases / 5).max(4) { let ops = gen_discovery_case(g); g.case(ops); }
    for i in 0..(g.cases / 10).max(6) { let ops = gen_counter_case(g, i as u64 % 3); g.case(ops); }
    for i in 0..g.cases {
        let (peers, len) = match i % 3 { 0 => (2, g.rng.range(5, 30)), 1 => (5, g.rng.range(20, 120)), _ => (8, g.rng.range(100, 300)) };
        let ops = gen_case(g, peers, len as usize);
        g.case(ops);
    }
}

pub fn run_case(case: &Case, out: &mut Out) {
    let mut it: Option<Init> = None;
    let (mut viols, mut inits, mut msgs) = (0, 0, 0);
    for op in &case.ops {
        if op[0] == "cfg" && op.len() == 5 {
            let v: Vec<u64> = op[1..].iter().filter_map(|x| x.parse().ok()).collect();
            if v.len() != 4 { out.reply("bad-op".into()); continue; }
            let i = Init::new(v[0] as usize, v[1] as usize, v[2] as usize, v[3] as u32);
            out.ok(i.state_text(&[]));
            it = Some(i);
            continue;
        }
        let Some(i) = it.as_mut() else { out.reply("bad-op".into()); continue; };
        match i.exec(op) {
            Step::Bad => out.reply("bad-op".into()),
            Step::Dead => out.reply("dead".into()),
            Step::Panic => {
                // ---- the property: no panic on any event ----
                let what = if op[0] == "recv" || op[0] == "sent" { format!("{} {}", op[0], op.get(2).map(|m| m.split(':').next().unwrap_or("")).unwrap_or("")) } else { op[0].clone() };
                out.viol(format!("panic initiator {}", what), format!("InitiatorBehavior panicked on {:?}", op));
                out.panic();
            }
            Step::Ok { annot, outs } => {
                if op[0] == "recv" || op[0] == "sent" { msgs += 1; }
                let text = i.state_text(&outs);
                if text.contains(":v1:") { viols += 1; }
                if outs.iter().any(|o| o.text().starts_with("ev.init")) { inits += 1; }
                out.ok(format!("{}{}", annot, text));
            }
        }
    }
    if viols > 0 { out.cov("violation-flagged"); }
    if inits > 0 { out.cov("peer-initialized"); }
    if viols > 0 && inits > 0 && msgs >= 5 { out.nontrivial(); }
}
