//! stream `immdb` — C42: read_blocks / read_blocks_from_point / get_tip on databases made of real
//! blocks (verbatim copies of test_data chunk files and re-chunked layouts), plus the two private
//! helpers through `verif_hooks`, against the Lean model; independent oracle = the chain as a list.
use crate::fw::*;
#[path = "../fixtures/immdb.rs"]
mod fx;
use fx::*;
use pallas_hardano::storage::immutable::{self as imm, FallibleBlock, Point};
use pallas_traverse::MultiEraBlock;
use std::cmp::Ordering;

pub const NAME: &str = "immdb";

type B = (u64, [u8; 32]);

fn tok(b: &B) -> String { format!("{}:{}", b.0, hex(&b.1)) }
fn untok(s: &str) -> B { let (a, h) = s.split_once(':').unwrap(); (a.parse().unwrap(), unhex(h).unwrap().try_into().unwrap()) }

/// canonical digest of a block sequence: count, fold, first, last
fn digest(bs: &[B]) -> String {
    let mut f: u64 = 0;
    for b in bs { f = (f * 33 + b.0 + u32::from_be_bytes([b.1[0], b.1[1], b.1[2], b.1[3]]) as u64) % 4294967296; }
    match (bs.first(), bs.last()) {
        (Some(a), Some(z)) => format!("{} {} {} {}", bs.len(), f, tok(a), tok(z)),
        _ => "0 0".to_string(),
    }
}

fn collect(it: impl Iterator<Item = FallibleBlock>) -> Result<Vec<B>, &'static str> {
    let mut v = vec![];
    for b in it {
        let bytes = b.map_err(|_| "read")?;
        let blk = MultiEraBlock::decode(&bytes).map_err(|_| "decode")?;
        let mut h = [0u8; 32];
        h.copy_from_slice(blk.hash().as_ref());
        v.push((blk.slot(), h));
    }
    Ok(v)
}

fn err_class(e: &imm::Error) -> &'static str {
    match e {
        imm::Error::CannotFindBlock(_) => "notfound",
        imm::Error::OriginMissing => "origin",
        imm::Error::CannotReadDir(_) => "readdir",
        imm::Error::CannotDecodeBlock(_) => "decode",
        imm::Error::ChunkReadError(_) => "read",
    }
}

fn where_is(chain: &[B], slot: u64) -> &'static str {
    match (chain.first(), chain.last()) {
        (None, _) => "empty-db",
        (Some(a), _) if slot < a.0 => "before-first",
        (_, Some(z)) if slot > z.0 => "beyond-tip",
        _ => if chain.iter().any(|b| b.0 == slot) { "at-a-block-slot" } else { "between-blocks" },
    }
}

pub fn run_case(case: &Case, out: &mut Out) {
    let pool = pool();
    let mut dir: Option<CaseDir> = None;
    let mut chain: Vec<B> = vec![];
    let mut nchunks = 0usize;
    let mut first_chunk_len = 0usize;
    let (mut deep_exact, mut fuzzy_between, mut absent) = (false, false, false);
    for op in &case.ops {
        match op[0].as_str() {
            "db" | "realdb" => {
                let d = CaseDir::new("immdb", case.id);
                let k: usize = op[1].parse().unwrap();
                let sizes: Vec<usize> = op[2..2 + k].iter().map(|s| s.parse().unwrap()).collect();
                let blocks: Vec<B> = op[2 + k..].iter().map(|s| untok(s)).collect();
                let idx: Vec<usize> = blocks.iter().map(|b| *pool.by_hash.get(&b.1).expect("block of the pool")).collect();
                let mut pos = 0;
                if op[0] == "db" {
                    for (c, n) in sizes.iter().enumerate() {
                        // deterministic sprinkling of empty relative slots, as real primary indexes have
                        let gaps: Vec<usize> = (0..*n).map(|i| (i * 7 + c) % 3).collect();
                        write_chunk(pool, d.path(), &format!("{:05}", 10 + c * 3), &idx[pos..pos + n], &gaps);
                        pos += n;
                    }
                } else {
                    // verbatim copies: which files follows from the chunk of the first block of each group
                    for n in &sizes { copy_real_chunk(d.path(), pool.blocks[idx[pos]].chunk); pos += n; }
                }
                nchunks = k.saturating_sub(1);
                first_chunk_len = sizes.first().copied().unwrap_or(0);
                let immutable: usize = sizes[..k.saturating_sub(1)].iter().sum();
                chain = blocks[..immutable].to_vec();
                dir = Some(d);
                out.ok(format!("{} {}", k, blocks.len()));
            }
            "readall" => {
                let d = dir.as_ref().unwrap().path().to_owned();
                match guard(move || imm::read_blocks(&d).map(collect)) {
                    None => { out.viol("panic op=read_blocks", ""); out.panic(); }
                    Some(Err(e)) => { out.viol("read-all-failed", err_class(&e)); out.err(err_class(&e)); }
                    Some(Ok(Err(c))) => { out.viol("read-all-failed", c); out.err(c); }
                    Some(Ok(Ok(v))) => {
                        if v != chain { out.viol("read-all-differs", format!("{} blocks read, {} in the immutable chunks", v.len(), chain.len())); }
                        if v.windows(2).any(|w| w[0].0 >= w[1].0) { out.viol("read-all-not-in-slot-order", ""); }
                        out.ok(digest(&v));
                    }
                }
            }
            "origin" => {
                let d = dir.as_ref().unwrap().path().to_owned();
                match guard_mut(move || imm::read_blocks_from_point(&d, Point::Origin).map(collect)) {
                    None => { out.viol("panic op=read_blocks_from_point origin", ""); out.panic(); }
                    Some(Err(e)) => {
                        // no block of the pool is a genesis block: a non-empty chain must be refused with OriginMissing
                        if !(matches!(e, imm::Error::OriginMissing) && !chain.is_empty()) { out.viol("origin-wrong-error", err_class(&e)); }
                        out.err(err_class(&e));
                    }
                    Some(Ok(Err(c))) => { out.viol("origin-read-failed", c); out.err(c); }
                    Some(Ok(Ok(v))) => { if !chain.is_empty() { out.viol("origin-accepted-without-genesis", format!("{} blocks", v.len())); } out.ok(digest(&v)); }
                }
            }
            "tip" => {
                let d = dir.as_ref().unwrap().path().to_owned();
                match guard(move || imm::get_tip(&d)) {
                    None => { out.viol("panic op=get_tip", ""); out.panic(); }
                    Some(Err(e)) => { out.viol("tip-failed", err_class(&e)); out.err(err_class(&e)); }
                    Some(Ok(t)) => {
                        let got: Option<B> = match t { Some(Point::Specific(s, h)) => Some((s, h.try_into().unwrap())), _ => None };
                        if got.as_ref() != chain.last() { out.viol("tip-differs", format!("{:?} vs last immutable block {:?}", got.map(|b| tok(&b)), chain.last().map(tok))); }
                        out.ok(match got { Some(b) => format!("some {}", tok(&b)), None => "none".into() });
                    }
                }
            }
            "from" => {
                let slot: u64 = op[1].parse().unwrap();
                let hash: Vec<u8> = unhex(&op[2]).unwrap();
                let d = dir.as_ref().unwrap().path().to_owned();
                let h2 = hash.clone();
                let r = guard(move || imm::read_blocks_from_point(&d, Point::Specific(slot, h2)).map(collect));
                // what the property demands
                let want: Option<Vec<B>> = if hash.is_empty() {
                    Some(chain.iter().skip_while(|b| b.0 < slot).cloned().collect())
                } else {
                    chain.iter().position(|b| b.0 == slot && b.1[..] == hash[..]).map(|i| chain[i..].to_vec())
                };
                let loc = where_is(&chain, slot);
                match r {
                    None => { out.viol(format!("panic op=read_blocks_from_point where={loc}"), ""); out.panic(); }
                    Some(Err(e)) => {
                        let c = err_class(&e);
                        match &want {
                            Some(_) if hash.is_empty() => out.viol(format!("fuzzy-point-refused where={loc}"), format!("slot {slot}: {c}")),
                            Some(_) => out.viol(format!("existing-exact-point-refused where={loc}"), format!("slot {slot}: {c}")),
                            None => { absent = true; if c != "notfound" { out.viol(format!("absent-exact-point-wrong-error class={c}"), ""); } }
                        }
                        out.err(c);
                    }
                    Some(Ok(Err(c))) => { out.viol("suffix-read-failed", c); out.err(c); }
                    Some(Ok(Ok(v))) => {
                        match &want {
                            None => out.viol(format!("absent-exact-point-accepted where={loc}"), format!("slot {slot} hash {}: Ok with {} blocks", op[2], v.len())),
                            Some(w) => {
                                if *w != v { out.viol(format!("{}-point-wrong-suffix where={loc}", if hash.is_empty() { "fuzzy" } else { "exact" }), format!("{} blocks vs {} expected", v.len(), w.len())); }
                                if hash.is_empty() { if loc == "between-blocks" { fuzzy_between = true; } }
                                else if chain.len() - w.len() >= first_chunk_len && nchunks >= 2 { deep_exact = true; }
                            }
                        }
                        out.ok(digest(&v));
                    }
                }
            }
            "bsearch" => {
                let point: u64 = op[1].parse().unwrap();
                let chunks: Vec<u64> = op[2..].iter().map(|s| s.parse().unwrap()).collect();
                let r = guard(|| imm::verif_hooks::chunk_binary_search(&chunks, &point, |c: &u64, p: &u64| Ok(c.cmp(p))));
                match r {
                    None => { out.viol("panic op=chunk_binary_search", format!("{op:?}")); out.panic(); }
                    Some(Err(e)) => out.err(err_class(&e)),
                    Some(Ok(i)) => {
                        // for a strictly descending list: the first (newest) chunk whose first slot is <= point
                        let desc = chunks.windows(2).all(|w| w[0] > w[1]);
                        let want = chunks.iter().position(|c| *c <= point);
                        if desc && i != want { out.viol("binary-search-wrong-chunk", format!("{i:?} vs {want:?} for {point} in {chunks:?}")); }
                        out.ok(match i { Some(i) => format!("some {i}"), None => "none".into() });
                    }
                }
            }
            "till" => {
                let slot: u64 = op[1].parse().unwrap();
                let hash: Vec<u8> = unhex(&op[2]).unwrap();
                let blocks: Vec<B> = op[3..].iter().map(|s| untok(s)).collect();
                let items: Vec<FallibleBlock> = blocks.iter().map(|b| Ok(pool.blocks[pool.by_hash[&b.1]].bytes.clone())).collect();
                let r = guard_mut(move || imm::verif_hooks::iterate_till_point(items.into_iter(), slot, &hash).map(collect));
                match r {
                    None => { out.viol("panic op=iterate_till_point", ""); out.panic(); }
                    Some(Err(e)) => out.err(err_class(&e)),
                    Some(Ok(Err(c))) => out.err(c),
                    Some(Ok(Ok(v))) => {
                        // on a run of blocks in slot order the helper alone must already refuse an exact point no block has
                        let hash2 = unhex(&op[2]).unwrap();
                        if !hash2.is_empty() && blocks.windows(2).all(|w| w[0].0 < w[1].0) && !blocks.is_empty()
                            && !blocks.iter().any(|b| b.0 == slot && b.1[..] == hash2[..]) {
                            out.viol(format!("absent-exact-point-accepted where=hook-{}", where_is(&blocks, slot)), format!("slot {slot} hash {}: Ok with {} blocks", op[2], v.len()));
                        }
                        out.ok(digest(&v))
                    }
                }
            }
            _ => out.reply("bad-op".into()),
        }
    }
    if deep_exact { out.cov("exact-hit-beyond-first-chunk"); }
    if fuzzy_between { out.cov("fuzzy-between-blocks"); }
    if absent { out.cov("absent-exact-point"); }
    if deep_exact && fuzzy_between && absent { out.nontrivial(); }
}

/// every way a (slot, hash) pair can miss block `i` of the chain while staying close to it:
/// its hash at a neighbouring / gap slot, its slot with a neighbour's hash, gap slots with either
/// neighbour's hash
fn near_misses(chain: &[B], i: usize) -> Vec<String> {
    let b = &chain[i];
    let mut q = vec![];
    let with = |slot: u64, h: &[u8; 32]| format!("from {} {}", slot, hex(h));
    // right hash, wrong slot: just below (the slot the skip loop stops *before*), just above, far below / above
    for s in [b.0.wrapping_sub(1), b.0 + 1, b.0.saturating_sub(1000), b.0 + 1000] { if s != b.0 { q.push(with(s, &b.1)); } }
    if i > 0 {
        let p = &chain[i - 1];
        // right slot, neighbour's hash; neighbour's slot, this hash
        q.push(with(b.0, &p.1)); q.push(with(p.0, &b.1));
        // a slot in the gap between the two (if there is one) with either hash
        if b.0 - p.0 > 1 { let mid = p.0 + (b.0 - p.0) / 2; q.push(with(mid, &b.1)); q.push(with(mid, &p.1)); q.push(with(p.0 + 1, &b.1)); }
    }
    if i + 1 < chain.len() { let n = &chain[i + 1]; q.push(with(b.0, &n.1)); q.push(with(n.0, &b.1)); }
    q
}

fn queries(g: &mut Gen, chain: &[B], all: &[B], n: usize, exhaustive: bool) -> Vec<String> {
    let mut q = vec![];
    let exact = |b: &B| format!("from {} {}", b.0, hex(&b.1));
    if chain.is_empty() {
        // nothing is immutable (0 or 1 chunk file): every point must be refused / every read empty, also for the
        // blocks that sit in the skipped newest chunk
        let probes: Vec<B> = if exhaustive { all.to_vec() } else { (0..n.min(all.len())).map(|_| g.rng.pick(all).clone()).collect() };
        for b in probes.iter().take(if exhaustive { 60 } else { n }) {
            q.push(exact(b)); q.push(format!("from {} -", b.0)); q.push(format!("from {} -", b.0 + 1)); q.push(format!("from {} {}", b.0.saturating_sub(1), hex(&b.1)));
        }
        q.push("from 0 -".into()); q.push(format!("from {} -", u64::MAX));
        return q;
    }
    if exhaustive {
        for (i, b) in chain.iter().enumerate() {
            q.push(exact(b)); q.push(format!("from {} -", b.0)); q.push(format!("from {} -", b.0 + 1)); q.push(format!("from {} -", b.0.saturating_sub(1)));
            q.extend(near_misses(chain, i));
        }
    }
    for _ in 0..n {
        if chain.is_empty() { break; }
        let i = g.rng.below(chain.len() as u64) as usize;
        let b = chain[i].clone();
        q.push(match g.rng.below(16) {
            0..=3 => exact(&b),
            4 => format!("from {} -", b.0),
            5 => format!("from {} -", b.0 + 1 + g.rng.below(3)),
            6 => format!("from {} -", b.0.saturating_sub(1 + g.rng.below(3))),
            7 => { let mut h = b.1; h[g.rng.below(32) as usize] ^= 1; format!("from {} {}", b.0, hex(&h)) }            // wrong hash at a block slot
            8 => format!("from {} {}", b.0 + 1, hex(&b.1)),                                                                // right hash, slot just above
            9 => { let z = chain.last().unwrap(); format!("from {} {}", z.0 + 1 + g.rng.below(2000), if g.rng.chance(1, 2) { hex(&z.1) } else { "-".into() }) }
            10 => { let a = chain.first().unwrap(); format!("from {} {}", a.0.saturating_sub(1 + g.rng.below(2000)), if g.rng.chance(1, 2) { hex(&a.1) } else { "-".into() }) }
            11 => { let m = g.rng.pick(all); exact(m) }                                                                      // maybe a block of the mutable chunk
            _ => { let nm = near_misses(chain, i); g.rng.pick(&nm).clone() }                                                 // right hash / wrong slot, right slot / neighbour hash, gap slots
        });
    }
    q
}

pub fn generate(g: &mut Gen) {
    let pool = pool();
    let all: Vec<B> = pool.blocks.iter().map(|b| (b.slot, b.hash)).collect();
    let per_chunk: Vec<Vec<B>> = REAL_CHUNKS.iter().map(|c| pool.blocks.iter().filter(|b| b.chunk == *c).map(|b| (b.slot, b.hash)).collect()).collect();
    // verbatim copies of contiguous subsets of the real chunk files (>= 2 files: the newest is skipped)
    // every contiguous subset in the thorough tier, also the single-file ones and the empty directory
    // (the newest file is never immutable, so those hold no immutable block at all)
    let subsets: &[&[usize]] = if g.thorough() { &[&[0, 1, 2], &[0, 1], &[1, 2], &[0], &[1], &[2], &[]] } else { &[&[0, 1, 2], &[2], &[1], &[]] };
    for sub in subsets {
        let groups: Vec<&Vec<B>> = sub.iter().map(|i| &per_chunk[*i]).collect();
        let blocks: Vec<B> = groups.iter().flat_map(|g| g.iter().cloned()).collect();
        let immutable: usize = groups[..groups.len().saturating_sub(1)].iter().map(|g| g.len()).sum();
        let mut ops = vec![format!("realdb {} {} {}", groups.len(), groups.iter().map(|g| g.len().to_string()).collect::<Vec<_>>().join(" "),
            blocks.iter().map(tok).collect::<Vec<_>>().join(" "))];
        ops.push("readall".into()); ops.push("tip".into()); ops.push("origin".into());
        let n = if g.thorough() { 150 } else { 14 };
        let probe: Vec<B> = if blocks.is_empty() { all[..40].to_vec() } else { blocks.clone() };
        ops.extend(queries(g, &blocks[..immutable], &probe, n, false));
        if immutable == 0 { g.case(ops); continue; }
        // near misses around the first and last block of every immutable chunk, the first block of the chain and a sample
        {
            let chain = &blocks[..immutable];
            let mut at = vec![0usize, immutable.saturating_sub(1)];
            let mut pos = 0;
            for gr in &groups[..groups.len() - 1] { at.push(pos); pos += gr.len(); at.push(pos - 1); }
            for _ in 0..(if g.thorough() { 40 } else { 3 }) { at.push(g.rng.below(immutable as u64) as usize); }
            at.sort(); at.dedup();
            for i in at { if i < chain.len() { let nm = near_misses(chain, i); if g.thorough() { ops.extend(nm); } else { ops.extend(nm.into_iter().take(3)); } } }
        }
        g.case(ops);
    }
    for case in 0..g.cases {
        let mut ops = vec![];
        match case % 6 {
            5 => {
                // the two helpers alone, on arbitrary (also unsorted / repeated) inputs
                for _ in 0..6 {
                    let n = g.rng.below(9);
                    let mut v: Vec<u64> = (0..n).map(|_| g.rng.below(40)).collect();
                    if g.rng.chance(3, 4) { v.sort(); v.dedup(); v.reverse(); }
                    ops.push(format!("bsearch {} {}", g.rng.below(42), v.iter().map(|x| x.to_string()).collect::<Vec<_>>().join(" ")));
                }
                for _ in 0..4 {
                    let start = g.rng.below(all.len() as u64 - 12) as usize;
                    let mut bs: Vec<B> = all[start..start + g.rng.range(0, 10) as usize].to_vec();
                    if g.rng.chance(1, 4) && bs.len() > 2 { let i = g.rng.below(bs.len() as u64 - 1) as usize; bs.swap(i, i + 1); }
                    let (slot, hash) = if bs.is_empty() || g.rng.chance(1, 5) { (g.rng.below(50_000_000), "-".to_string()) } else {
                        let b = g.rng.pick(&bs).clone();
                        match g.rng.below(7) { 0 => (b.0, hex(&b.1)), 1 => (b.0 + 1, "-".into()), 2 => (b.0 + 100000, hex(&b.1)), 3 => (b.0 - 1, hex(&b.1)), 4 => (b.0 + 1, hex(&b.1)),
                            5 => (b.0, hex(&g.rng.pick(&bs).1)), _ => (b.0, "-".into()) }
                    };
                    ops.push(format!("till {} {} {}", slot, hash, bs.iter().map(tok).collect::<Vec<_>>().join(" ")));
                }
            }
            _ => {
                // a re-chunked layout of a run (or a strided sample) of real blocks
                let total = g.rng.range(2, 36) as usize;
                let stride = if g.rng.chance(1, 3) { g.rng.range(2, 40) as usize } else { 1 };
                let start = g.rng.below((all.len() - total * stride) as u64) as usize;
                let blocks: Vec<B> = (0..total).map(|i| all[start + i * stride]).collect();
                let k = match g.rng.below(8) { 0 => 0, 1 => 1, _ => g.rng.range(2, 6.min(total as u64)) as usize };
                if k <= 1 {
                    // an empty directory, or a single (hence volatile) chunk file: no immutable block
                    let held: Vec<B> = if k == 0 { vec![] } else { blocks.clone() };
                    ops.push(format!("db {}{}{}", k, if k == 1 { format!(" {}", total) } else { String::new() }, held.iter().map(|b| format!(" {}", tok(b))).collect::<String>()));
                    ops.push("readall".into()); ops.push("tip".into()); ops.push("origin".into());
                    let n = g.rng.range(4, 10) as usize;
                    ops.extend(queries(g, &[], &blocks, n, case % 12 == 0));
                    g.case(ops);
                    continue;
                }
                // k non-empty chunks
                let mut cuts: Vec<usize> = (1..total).collect();
                let mut chosen = vec![];
                for _ in 0..k - 1 { let i = g.rng.below(cuts.len() as u64) as usize; chosen.push(cuts.remove(i)); }
                chosen.sort();
                let mut sizes = vec![]; let mut prev = 0;
                for c in chosen { sizes.push(c - prev); prev = c; }
                sizes.push(total - prev);
                let immutable: usize = sizes[..k - 1].iter().sum();
                ops.push(format!("db {} {} {}", k, sizes.iter().map(|s| s.to_string()).collect::<Vec<_>>().join(" "), blocks.iter().map(tok).collect::<Vec<_>>().join(" ")));
                ops.push("readall".into()); ops.push("tip".into()); if g.rng.chance(1, 3) { ops.push("origin".into()); }
                let exhaustive = g.thorough() || case % 12 == 0;
                let n = g.rng.range(8, 20) as usize;
                ops.extend(queries(g, &blocks[..immutable], &blocks, n, exhaustive));
            }
        }
        g.case(ops);
    }
}
