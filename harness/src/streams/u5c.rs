//! stream `u5c` — C44: the UTxO RPC mappers (v1alpha and v1beta). Model-tied ops: `bigint`, `u64`,
//! `i64`, `datum` (reply = canonical rendering of the mapped value, both schema versions must
//! agree). Oracle-only ops (reply `done`): `txdatum` (generated datum carried by an output of a built
//! transaction through map_tx) and `file` (a block / transaction of test_data through map_block /
//! map_tx, every mapped field named by the property re-extracted and compared with pallas-traverse).
use crate::fw::*;
use pallas_codec::minicbor;
use pallas_codec::utils::{Int, KeyValuePairs, MaybeIndefArray};
use pallas_primitives::alonzo::{BigInt, BoundedBytes, Constr, PlutusData};
use pallas_traverse::{Era, MultiEraBlock, MultiEraTx};
use pallas_txbuilder::{BuildConway, Input, Output, StagingTransaction};
use pallas_utxorpc::{LedgerContext, TxoRef, UtxoMap};

#[path = "../fixtures/w12_cst.rs"]
mod cst;

pub const NAME: &str = "u5c";

#[derive(Clone)]
struct NoLedger;
impl LedgerContext for NoLedger {
    fn get_utxos(&self, _refs: &[TxoRef]) -> Option<UtxoMap> { None }
    fn get_slot_timestamp(&self, _slot: u64) -> Option<u64> { None }
}

/// canonical integer: (negative, magnitude bytes without leading zeros) with value = m or −1−m
type Canon = (bool, Vec<u8>);
fn strip(b: &[u8]) -> Vec<u8> { b.iter().copied().skip_while(|x| *x == 0).collect() }
fn canon_i128(v: i128) -> Canon { if v >= 0 { (false, strip(&(v as u128).to_be_bytes())) } else { (true, strip(&((-1 - v) as u128).to_be_bytes())) } }
fn canon_pallas(b: &BigInt) -> Canon {
    match b {
        BigInt::Int(i) => canon_i128(i128::from(*i)),
        BigInt::BigUInt(x) => (false, strip(x)),
        BigInt::BigNInt(x) => (true, strip(x)),
    }
}

/// content of a datum, independent of the representation
#[derive(Debug, Clone, PartialEq)]
enum Tree { Constr(u64, u64, Vec<Tree>), Map(Vec<(Tree, Tree)>), Array(Vec<Tree>), Int(Canon), Bytes(Vec<u8>), Missing }

fn tree_pallas(d: &PlutusData) -> Tree {
    match d {
        PlutusData::Constr(c) => Tree::Constr(c.tag, c.any_constructor.unwrap_or(0), c.fields.iter().map(tree_pallas).collect()),
        PlutusData::Map(m) => Tree::Map(m.iter().map(|(k, v)| (tree_pallas(k), tree_pallas(v))).collect()),
        PlutusData::Array(a) => Tree::Array(a.iter().map(tree_pallas).collect()),
        PlutusData::BigInt(b) => Tree::Int(canon_pallas(b)),
        PlutusData::BoundedBytes(b) => Tree::Bytes(b.to_vec()),
    }
}

/// every item that sits inside a `#6.24(bytes)` wrapper of the wire bytes, cut by the harness's own
/// concrete-syntax parser (inline datums and script references are carried this way)
fn wrapped_payloads(n: &cst::Node, out: &mut Vec<Vec<u8>>) {
    match n {
        cst::Node::Tag { ai, arg, inner } => {
            let t = if *ai < 24 { *ai as u64 } else { arg.iter().fold(0u64, |a, b| (a << 8) | *b as u64) };
            if t == 24 { if let cst::Node::Str { major: 2, payload, .. } = &**inner { out.push(payload.clone()); } }
            wrapped_payloads(inner, out);
        }
        cst::Node::Seq { items, .. } | cst::Node::SeqIndef { items, .. } => for i in items { wrapped_payloads(i, out); },
        _ => {}
    }
}
/// what the harness itself cuts out of the wire bytes of a transaction: the body span and the wrapped items
pub struct Wire { pub bytes: Vec<u8>, pub body: Vec<u8>, pub wrapped: Vec<Vec<u8>> }
fn wire_of(bytes: &[u8]) -> Option<Wire> {
    let mut d = minicbor::Decoder::new(bytes);
    d.array().ok()?;
    let a = d.position();
    d.skip().ok()?;
    let b = d.position();
    let (tree, e) = cst::parse(bytes, 0, 0)?;
    if e != bytes.len() { return None; }
    let mut wrapped = vec![];
    wrapped_payloads(&tree, &mut wrapped);
    Some(Wire { bytes: bytes.to_vec(), body: bytes[a..b].to_vec(), wrapped })
}

/// per schema version: canonical views of the generated prost types
macro_rules! version {
    ($m:ident, $ver:ident, { $($q:tt)* }) => {
        mod $m {
            use super::*;
            pub use pallas_utxorpc::$ver::spec::cardano as u5c;
            pub use pallas_utxorpc::$ver::Mapper;
            pub fn mapper() -> Mapper<NoLedger> { Mapper::new(NoLedger) }
            $($q)*
            pub fn show_bigint(b: &u5c::BigInt) -> String {
                match &b.big_int {
                    Some(u5c::big_int::BigInt::Int(v)) => format!("I {v}"),
                    Some(u5c::big_int::BigInt::BigUInt(x)) => format!("U {}", hex(x)),
                    Some(u5c::big_int::BigInt::BigNInt(x)) => format!("N {}", hex(x)),
                    None => "missing".into(),
                }
            }
            pub fn canon(b: &u5c::BigInt) -> Option<Canon> {
                match &b.big_int {
                    Some(u5c::big_int::BigInt::Int(v)) => Some(canon_i128(*v as i128)),
                    Some(u5c::big_int::BigInt::BigUInt(x)) => Some((false, strip(x))),
                    Some(u5c::big_int::BigInt::BigNInt(x)) => Some((true, strip(x))),
                    None => None,
                }
            }
            pub fn show_data(d: &u5c::PlutusData, out: &mut Vec<String>) {
                use u5c::plutus_data::PlutusData as P;
                match &d.plutus_data {
                    Some(P::Constr(c)) => { out.push(format!("c {} {} {}", c.tag, c.any_constructor, c.fields.len())); for f in &c.fields { show_data(f, out); } }
                    Some(P::Map(m)) => { out.push(format!("m {}", m.pairs.len())); for p in &m.pairs { match (&p.key, &p.value) { (Some(k), Some(v)) => { show_data(k, out); show_data(v, out); } _ => out.push("missing".into()) } } }
                    Some(P::Array(a)) => { out.push(format!("a {}", a.items.len())); for i in &a.items { show_data(i, out); } }
                    Some(P::BigInt(b)) => out.push(show_bigint(b)),
                    Some(P::BoundedBytes(b)) => out.push(format!("b {}", hex(b))),
                    None => out.push("missing".into()),
                }
            }
            pub fn tree(d: &u5c::PlutusData) -> Tree {
                use u5c::plutus_data::PlutusData as P;
                match &d.plutus_data {
                    Some(P::Constr(c)) => Tree::Constr(c.tag as u64, c.any_constructor, c.fields.iter().map(tree).collect()),
                    Some(P::Map(m)) => Tree::Map(m.pairs.iter().map(|p| (p.key.as_ref().map(tree).unwrap_or(Tree::Missing), p.value.as_ref().map(tree).unwrap_or(Tree::Missing))).collect()),
                    Some(P::Array(a)) => Tree::Array(a.items.iter().map(tree).collect()),
                    Some(P::BigInt(b)) => canon(b).map(Tree::Int).unwrap_or(Tree::Missing),
                    Some(P::BoundedBytes(b)) => Tree::Bytes(b.to_vec()),
                    None => Tree::Missing,
                }
            }
            pub fn bi(b: &Option<u5c::BigInt>) -> String {
                match b.as_ref().and_then(|b| b.big_int.as_ref()) {
                    Some(u5c::big_int::BigInt::Int(v)) => format!("I{v}"),
                    Some(u5c::big_int::BigInt::BigUInt(x)) => format!("U{}", hex(x)),
                    Some(u5c::big_int::BigInt::BigNInt(x)) => format!("N{}", hex(x)),
                    None => "missing".into(),
                }
            }
            pub fn tree_str(d: &u5c::PlutusData) -> String {
                use u5c::plutus_data::PlutusData as P;
                match &d.plutus_data {
                    Some(P::Constr(c)) => format!("c({},{},[{}])", c.tag, c.any_constructor, c.fields.iter().map(tree_str).collect::<Vec<_>>().join(";")),
                    Some(P::Map(m)) => format!("m([{}])", m.pairs.iter().map(|p| format!("{}={}", p.key.as_ref().map(tree_str).unwrap_or("missing".into()), p.value.as_ref().map(tree_str).unwrap_or("missing".into()))).collect::<Vec<_>>().join(";")),
                    Some(P::Array(a)) => format!("a([{}])", a.items.iter().map(tree_str).collect::<Vec<_>>().join(";")),
                    Some(P::BigInt(b)) => bi(&Some(b.clone())),
                    Some(P::BoundedBytes(b)) => format!("b{}", hex(b)),
                    None => "missing".into(),
                }
            }
            pub fn native_str(n: &u5c::NativeScript) -> String {
                use u5c::native_script::NativeScript as N;
                let list = |xs: &Vec<u5c::NativeScript>| xs.iter().map(native_str).collect::<Vec<_>>().join(";");
                match &n.native_script {
                    Some(x) if pubkey_of(x).is_some() => format!("k{}", hex(&pubkey_of(x).unwrap())),
                    Some(N::ScriptAll(l)) => format!("A[{}]", list(&l.items)),
                    Some(N::ScriptAny(l)) => format!("O[{}]", list(&l.items)),
                    Some(N::ScriptNOfK(k)) => format!("K{}[{}]", k.k, list(&k.scripts)),
                    Some(N::InvalidBefore(s)) => format!("B{s}"),
                    Some(N::InvalidHereafter(s)) => format!("F{s}"),
                    _ => "missing".into(),
                }
            }
            pub fn assets_str(ms: &[u5c::Multiasset]) -> String {
                format!("{{{}}}", ms.iter().map(|p| format!("{}:{{{}}}", hex(&p.policy_id), p.assets.iter().map(|a| format!("{}={}", hex(&a.name), quantity_bi(a))).collect::<Vec<_>>().join(","))).collect::<Vec<_>>().join(","))
            }
            pub fn out_str(o: &u5c::TxOutput) -> String {
                let d = o.datum.clone().unwrap_or_default();
                let script = match o.script.as_ref().and_then(|s| s.script.as_ref()) {
                    None => "none".to_string(),
                    Some(u5c::script::Script::Native(n)) => format!("n{}", native_str(n)),
                    Some(u5c::script::Script::PlutusV1(b)) => format!("p1.{}", hex(b)),
                    Some(u5c::script::Script::PlutusV2(b)) => format!("p2.{}", hex(b)),
                    Some(u5c::script::Script::PlutusV3(b)) => format!("p3.{}", hex(b)),
                    #[allow(unreachable_patterns)]
                    Some(_) => "other".to_string(),
                };
                format!("{}/{}/{}/{};{};{}/{}", hex(&o.address), bi(&o.coin), assets_str(&o.assets), hex(&d.hash),
                    d.payload.as_ref().map(tree_str).unwrap_or("-".into()), datum_cbor(&d), script)
            }
            pub fn in_str(i: &u5c::TxInput) -> String { format!("{}:{}", hex(&i.tx_hash), i.output_index) }
            /// canonical rendering of the mapped transaction; the second part is the witness redeemers (v1beta only)
            pub fn render_tx(t: &u5c::Tx) -> (String, Option<String>) {
                let l = |xs: &[u5c::TxInput]| format!("[{}]", xs.iter().map(in_str).collect::<Vec<_>>().join(" "));
                let col = t.collateral.clone().unwrap_or_default();
                let v = t.validity.clone().unwrap_or_default();
                let w = t.witnesses.clone().unwrap_or_default();
                let head = format!("hash={} in={} out=[{}] fee={} vs={} ttl={} mint={} col={} cr={} tc={} ref={} wd=[{}] certs={} pd=[{}]",
                    hex(&t.hash), l(&t.inputs), t.outputs.iter().map(out_str).collect::<Vec<_>>().join(" "), bi(&t.fee), v.start, v.ttl,
                    assets_str(&t.mint), l(&col.collateral), col.collateral_return.as_ref().map(out_str).unwrap_or("none".into()),
                    bi(&col.total_collateral), l(&t.reference_inputs),
                    t.withdrawals.iter().map(|x| format!("{}={}", hex(&x.reward_account), bi(&x.coin))).collect::<Vec<_>>().join(" "),
                    t.certificates.len(), w.plutus_datums.iter().map(tree_str).collect::<Vec<_>>().join(" "));
                (format!("{head} RD ok={}", t.successful as u8), witness_redeemers(&w))
            }
            /// compare the hash / original-bytes fields of a mapped transaction with the wire bytes the harness cut itself
            pub fn check_wire(w: &Wire, m: &u5c::Tx, tag: &str, out: &mut Out) {
                let v = stringify!($ver);
                if m.hash.as_ref() != &*pallas_crypto::hash::Hasher::<256>::hash(&w.body) {
                    out.viol(format!("tx-hash-not-of-wire-body version={v}"), tag.to_string());
                }
                let outs = m.outputs.iter().chain(m.collateral.iter().flat_map(|c| c.collateral_return.iter()));
                for (i, o) in outs.enumerate() {
                    if let Some(d) = &o.datum {
                        let cbor = datum_cbor_bytes(d);
                        if !cbor.is_empty() {
                            if !w.wrapped.iter().any(|p| *p == cbor) { out.viol(format!("datum-original-bytes-not-on-the-wire version={v}"), format!("{tag}: output {i}")); }
                            if d.hash.as_ref() != &*pallas_crypto::hash::Hasher::<256>::hash(&cbor) {
                                out.viol(format!("datum-hash-not-of-wire-bytes version={v}"), format!("{tag}: output {i}: {} is not blake2b256 of {}", hex(&d.hash), hex(&cbor)));
                            }
                        }
                    }
                    if let Some(oc) = output_cbor_bytes(o) {
                        if !w.bytes.windows(oc.len().max(1)).any(|x| x == &oc[..]) { out.viol(format!("output-original-bytes-not-on-the-wire version={v}"), format!("{tag}: output {i}")); }
                    }
                }
            }
            /// compare a mapped transaction with what pallas-traverse says about the source
            pub fn check_tx(tx: &MultiEraTx, m: &u5c::Tx, tag: &str, out: &mut Out) {
                let v = stringify!($ver);
                let mut bad = |field: &str, detail: String| out.viol(format!("mapped-{field}-differs version={v}"), format!("{tag}: {detail}"));
                if m.hash.as_ref() != tx.hash().as_ref() { bad("hash", String::new()); }
                let ins = tx.inputs_sorted_set();
                if ins.len() != m.inputs.len() || ins.iter().zip(&m.inputs).any(|(a, b)| a.hash().as_ref() != b.tx_hash.as_ref() || a.index() != b.output_index as u64) {
                    bad("inputs", format!("{} vs {}", ins.len(), m.inputs.len()));
                }
                let outs = tx.outputs();
                if outs.len() != m.outputs.len() { bad("outputs", format!("{} vs {} outputs", outs.len(), m.outputs.len())); }
                for (i, (a, b)) in outs.iter().zip(&m.outputs).enumerate() {
                    let addr = a.address().map(|x| x.to_vec()).unwrap_or_default();
                    if addr != b.address.as_ref() { bad("output-address", format!("output {i}")); }
                    let coin = a.value().coin();
                    if b.coin.as_ref().and_then(canon) != Some(canon_i128(coin as i128)) { bad("output-coin", format!("output {i}: {coin} vs {}", b.coin.as_ref().map(show_bigint).unwrap_or_default())); }
                    // assets: (policy, name, quantity) in order
                    let mut want = vec![];
                    for p in a.value().assets() { for x in p.assets() { want.push((p.policy().to_vec(), x.name().to_vec(), canon_i128(x.output_coin().unwrap_or(0) as i128))); } }
                    let mut got = vec![];
                    for p in &b.assets { for x in &p.assets { got.push((p.policy_id.to_vec(), x.name.to_vec(), quantity(x))); } }
                    if want.iter().map(|w| (w.0.clone(), w.1.clone(), Some(w.2.clone()))).collect::<Vec<_>>() != got { bad("output-assets", format!("output {i}: {} vs {} entries", want.len(), got.len())); }
                    // datum
                    match (a.datum(), &b.datum) {
                        (None, d) => if d.as_ref().map(|d| !d.hash.is_empty() || d.payload.is_some()).unwrap_or(false) { bad("output-datum", format!("output {i}: datum invented")); },
                        (Some(pallas_primitives::conway::DatumOption::Hash(h)), Some(d)) => if d.hash.as_ref() != h.as_ref() { bad("output-datum", format!("output {i}: hash")); },
                        (Some(pallas_primitives::conway::DatumOption::Data(pd)), Some(d)) => {
                            let src = tree_pallas(&pd.0);
                            if d.payload.as_ref().map(tree) != Some(src) { bad("output-datum", format!("output {i}: inline datum content")); }
                        }
                        (Some(_), None) => bad("output-datum", format!("output {i}: datum dropped")),
                    }
                }
                let fee = tx.fee().unwrap_or_default();
                if m.fee.as_ref().and_then(canon) != Some(canon_i128(fee as i128)) { bad("fee", format!("{fee}")); }
                let (s, t) = (tx.validity_start().unwrap_or_default(), tx.ttl().unwrap_or_default());
                if m.validity.as_ref().map(|x| (x.start, x.ttl)) != Some((s, t)) { bad("validity", format!("{s} {t}")); }
                // witness-set datums
                let wd: Vec<Tree> = tx.plutus_data().iter().map(|d| tree_pallas(d)).collect();
                let md: Vec<Tree> = m.witnesses.as_ref().map(|w| w.plutus_datums.iter().map(tree).collect()).unwrap_or_default();
                if wd != md { bad("witness-datums", format!("{} vs {}", wd.len(), md.len())); }
            }
        }
    };
}
// the Asset.quantity field differs between the two schema versions
version!(va, v1alpha, {
    pub fn quantity(x: &u5c::Asset) -> Option<Canon> {
        match &x.quantity { Some(u5c::asset::Quantity::OutputCoin(b)) | Some(u5c::asset::Quantity::MintCoin(b)) => canon(b), None => None }
    }
    pub fn quantity_bi(x: &u5c::Asset) -> String {
        match &x.quantity { Some(u5c::asset::Quantity::OutputCoin(b)) | Some(u5c::asset::Quantity::MintCoin(b)) => bi(&Some(b.clone())), None => "missing".into() }
    }
    pub fn pubkey_of(x: &u5c::native_script::NativeScript) -> Option<Vec<u8>> { match x { u5c::native_script::NativeScript::ScriptPubkey(b) => Some(b.to_vec()), _ => None } }
    pub fn datum_cbor(d: &u5c::Datum) -> String { hex(&d.original_cbor) }
    pub fn datum_cbor_bytes(d: &u5c::Datum) -> Vec<u8> { d.original_cbor.to_vec() }
    pub fn output_cbor_bytes(_o: &u5c::TxOutput) -> Option<Vec<u8>> { None }
    pub fn witness_redeemers(_w: &u5c::WitnessSet) -> Option<String> { None }
});
version!(vb, v1beta, {
    pub fn quantity(x: &u5c::Asset) -> Option<Canon> { x.quantity.as_ref().and_then(canon) }
    pub fn quantity_bi(x: &u5c::Asset) -> String { bi(&x.quantity) }
    pub fn pubkey_of(x: &u5c::native_script::NativeScript) -> Option<Vec<u8>> { match x { u5c::native_script::NativeScript::ScriptPubkeyHash(b) => Some(b.to_vec()), _ => None } }
    pub fn datum_cbor(d: &u5c::Datum) -> String { d.original_cbor.as_ref().map(|b| hex(b)).unwrap_or("-".into()) }
    pub fn datum_cbor_bytes(d: &u5c::Datum) -> Vec<u8> { d.original_cbor.as_ref().map(|b| b.to_vec()).unwrap_or_default() }
    pub fn output_cbor_bytes(o: &u5c::TxOutput) -> Option<Vec<u8>> { o.original_cbor.as_ref().map(|b| b.to_vec()) }
    pub fn witness_redeemers(w: &u5c::WitnessSet) -> Option<String> {
        Some(format!("[{}]", w.redeemers.iter().map(|r| { let e = r.ex_units.clone().unwrap_or_default();
            format!("{}:{}:{}:{}:{}", r.purpose, r.index, e.memory, e.steps, r.payload.as_ref().map(tree_str).unwrap_or("missing".into())) }).collect::<Vec<_>>().join(" ")))
    }
});

// ------------------------------------------------------------------------------------------ datum tokens

/// prefix grammar: `c <tag> <any|-> <n> …` | `m <n> (k v)…` | `a <n> …` | `i <int>` | `u <hex>` | `n <hex>` | `b <hex>`
fn parse_data(t: &[String], pos: &mut usize) -> PlutusData {
    let k = t[*pos].as_str(); *pos += 1;
    match k {
        "c" => {
            let tag: u64 = t[*pos].parse().unwrap();
            let any: Option<u64> = if t[*pos + 1] == "-" { None } else { Some(t[*pos + 1].parse().unwrap()) };
            let n: usize = t[*pos + 2].parse().unwrap();
            *pos += 3;
            let fields: Vec<PlutusData> = (0..n).map(|_| parse_data(t, pos)).collect();
            PlutusData::Constr(Constr { tag, any_constructor: any, fields: MaybeIndefArray::Def(fields) })
        }
        "m" => {
            let n: usize = t[*pos].parse().unwrap(); *pos += 1;
            let pairs: Vec<(PlutusData, PlutusData)> = (0..n).map(|_| { let k = parse_data(t, pos); let v = parse_data(t, pos); (k, v) }).collect();
            PlutusData::Map(KeyValuePairs::Def(pairs))
        }
        "a" => {
            let n: usize = t[*pos].parse().unwrap(); *pos += 1;
            PlutusData::Array(MaybeIndefArray::Def((0..n).map(|_| parse_data(t, pos)).collect()))
        }
        "i" => { let v: i128 = t[*pos].parse().unwrap(); *pos += 1; PlutusData::BigInt(BigInt::Int(Int::try_from(v).expect("cbor int range"))) }
        "u" => { let b = unhex(&t[*pos]).unwrap(); *pos += 1; PlutusData::BigInt(BigInt::BigUInt(BoundedBytes::from(b))) }
        "n" => { let b = unhex(&t[*pos]).unwrap(); *pos += 1; PlutusData::BigInt(BigInt::BigNInt(BoundedBytes::from(b))) }
        _ => { let b = unhex(&t[*pos]).unwrap(); *pos += 1; PlutusData::BoundedBytes(BoundedBytes::from(b)) }
    }
}

/// the prefix-token form of a pallas datum (inverse of `parse_data`)
fn data_tokens(d: &PlutusData, out: &mut Vec<String>) {
    match d {
        PlutusData::Constr(c) => {
            out.push(format!("c {} {} {}", c.tag, c.any_constructor.map(|x| x.to_string()).unwrap_or("-".into()), c.fields.len()));
            for f in c.fields.iter() { data_tokens(f, out); }
        }
        PlutusData::Map(m) => { out.push(format!("m {}", m.len())); for (k, v) in m.iter() { data_tokens(k, out); data_tokens(v, out); } }
        PlutusData::Array(a) => { out.push(format!("a {}", a.len())); for x in a.iter() { data_tokens(x, out); } }
        PlutusData::BigInt(BigInt::Int(i)) => out.push(format!("i {}", i128::from(*i))),
        PlutusData::BigInt(BigInt::BigUInt(b)) => out.push(format!("u {}", hex(b))),
        PlutusData::BigInt(BigInt::BigNInt(b)) => out.push(format!("n {}", hex(b))),
        PlutusData::BoundedBytes(b) => out.push(format!("b {}", hex(b))),
    }
}
fn native_tokens(n: &pallas_primitives::alonzo::NativeScript, out: &mut Vec<String>) {
    use pallas_primitives::alonzo::NativeScript as N;
    match n {
        N::ScriptPubkey(h) => out.push(format!("k {}", hex(h.as_ref()))),
        N::ScriptAll(xs) => { out.push(format!("A {}", xs.len())); for x in xs { native_tokens(x, out); } }
        N::ScriptAny(xs) => { out.push(format!("O {}", xs.len())); for x in xs { native_tokens(x, out); } }
        N::ScriptNOfK(k, xs) => { out.push(format!("K {} {}", k, xs.len())); for x in xs { native_tokens(x, out); } }
        N::InvalidBefore(s) => out.push(format!("B {s}")),
        N::InvalidHereafter(s) => out.push(format!("F {s}")),
    }
}
fn opt_tok(x: Option<u64>) -> String { x.map(|v| v.to_string()).unwrap_or("-".into()) }

fn output_tokens(o: &pallas_traverse::MultiEraOutput, out: &mut Vec<String>) {
    use pallas_primitives::conway::{DatumOption, ScriptRef};
    out.push(hex(&o.address().map(|a| a.to_vec()).unwrap_or_default()));
    out.push(o.value().coin().to_string());
    let value = o.value();
    let assets = value.assets();
    out.push(assets.len().to_string());
    for p in &assets {
        let xs = p.assets();
        out.push(format!("{} {}", hex(p.policy().as_ref()), xs.len()));
        for x in &xs { out.push(format!("{} {}", hex(x.name()), x.output_coin().unwrap_or(0))); }
    }
    match o.datum() {
        None => out.push("dn".into()),
        Some(DatumOption::Hash(h)) => out.push(format!("dh {}", hex(h.as_ref()))),
        Some(DatumOption::Data(d)) => { out.push(format!("di {}", hex(d.raw_cbor()))); data_tokens(&d.0, out); }
    }
    match o.script_ref() {
        None => out.push("sn".into()),
        Some(ScriptRef::NativeScript(n)) => { out.push("ss".into()); native_tokens(&n, out); }
        Some(ScriptRef::PlutusV1Script(b)) => out.push(format!("sp 1 {}", hex(b.0.as_ref()))),
        Some(ScriptRef::PlutusV2Script(b)) => out.push(format!("sp 2 {}", hex(b.0.as_ref()))),
        Some(ScriptRef::PlutusV3Script(b)) => out.push(format!("sp 3 {}", hex(b.0.as_ref()))),
    }
}

/// the ledger view of a transaction as the mapper reads it through pallas-traverse, in prefix tokens
fn view_tokens(tx: &MultiEraTx) -> Vec<String> {
    use pallas_traverse::{MultiEraCert, OriginalHash};
    let mut t: Vec<String> = vec![];
    t.push(format!("hash {} valid {} fee {} vs {} ttl {} tc {}", hex(tx.hash().as_ref()), tx.is_valid() as u8, opt_tok(tx.fee()),
        opt_tok(tx.validity_start()), opt_tok(tx.ttl()), opt_tok(tx.total_collateral())));
    t.push(format!("certs {}", tx.certs().iter().filter(|c| matches!(c, MultiEraCert::AlonzoCompatible(_) | MultiEraCert::Conway(_))).count()));
    let ins = |label: &str, xs: Vec<pallas_traverse::MultiEraInput>, t: &mut Vec<String>| {
        t.push(format!("{label} {}", xs.len()));
        for i in xs { t.push(format!("{} {}", hex(i.hash().as_ref()), i.index())); }
    };
    ins("in", tx.inputs_sorted_set(), &mut t);
    ins("ref", tx.reference_inputs(), &mut t);
    ins("col", tx.collateral(), &mut t);
    let outs = tx.outputs();
    t.push(format!("out {}", outs.len()));
    for o in &outs { output_tokens(o, &mut t); }
    match tx.collateral_return() { None => t.push("cr 0".into()), Some(o) => { t.push("cr 1".into()); output_tokens(&o, &mut t); } }
    let mint = tx.mints_sorted_set();
    t.push(format!("mint {}", mint.len()));
    for p in &mint {
        let xs = p.assets();
        t.push(format!("{} {}", hex(p.policy().as_ref()), xs.len()));
        for x in &xs { t.push(format!("{} {}", hex(x.name()), x.mint_coin().unwrap_or(0))); }
    }
    let wd = tx.withdrawals_sorted_set();
    t.push(format!("wd {}", wd.len()));
    for (a, c) in wd { t.push(format!("{} {}", hex(a), c)); }
    let pd = tx.plutus_data();
    t.push(format!("pd {}", pd.len()));
    for d in pd { t.push(hex(d.original_hash().as_ref())); data_tokens(d, &mut t); }
    let rd = tx.redeemers();
    t.push(format!("rd {}", rd.len()));
    for r in &rd {
        use pallas_primitives::conway::RedeemerTag as T;
        let tag = match r.tag() { T::Spend => 0, T::Mint => 1, T::Cert => 2, T::Reward => 3, T::Vote => 4, T::Propose => 5 };
        t.push(format!("{} {} {} {}", tag, r.index(), r.ex_units().mem, r.ex_units().steps));
        data_tokens(r.data(), &mut t);
    }
    t.iter().flat_map(|l| l.split(' ').map(|x| x.to_string())).collect()
}

/// `txview` source: `file block <name> <i>` | `file tx <name>` | `raw <hex>` (a Conway transaction)
fn with_source_tx<R>(src: &[String], f: impl FnOnce(&MultiEraTx) -> R) -> Option<R> {
    let dir = std::path::PathBuf::from(std::env::var("PV_REPO").unwrap_or_else(|_| "/repo".into())).join("test_data");
    match src[0].as_str() {
        "raw" => { let raw = unhex(&src[1])?; let tx = MultiEraTx::decode_for_era(Era::Conway, &raw).ok()?; Some(f(&tx)) }
        "file" => {
            let raw = hex::decode(std::fs::read_to_string(dir.join(&src[2])).ok()?.trim()).ok()?;
            if src[1] == "block" {
                let block = MultiEraBlock::decode(&raw).ok()?;
                let txs = block.txs();
                let tx = txs.get(src[3].parse::<usize>().ok()?)?;
                Some(f(tx))
            } else { let tx = MultiEraTx::decode(&raw).ok()?; Some(f(&tx)) }
        }
        _ => None,
    }
}

fn range_of(c: &Canon) -> &'static str {
    // where the integer lies relative to i64
    let big = c.1.len() > 8 || (c.1.len() == 8 && c.1[0] >= 0x80);
    match (c.0, big) { (_, false) => "inside-i64", (false, true) => "above-i64", (true, true) => "below-i64" }
}

fn addr() -> pallas_addresses::Address { let mut b = vec![0x61u8]; b.extend([0x5au8; 28]); pallas_addresses::Address::from_bytes(&b).unwrap() }

/// a Conway transaction with the given fee / first output coin / optional inline datum / optional mint
fn built_tx(fee: u64, coin: u64, datum: Option<Vec<u8>>, mint: Option<i64>) -> Vec<u8> {
    let mut o = Output::new(addr(), coin);
    if let Some(d) = datum { o = o.set_inline_datum(d); }
    let mut st = StagingTransaction::new().input(Input::new([7u8; 32].into(), 1)).output(o).fee(fee);
    if let Some(q) = mint { st = st.mint_asset([9u8; 28].into(), vec![0x41], q).unwrap(); }
    st.build_conway_raw().expect("fixture builds").tx_bytes.0
}

pub fn run_case(case: &Case, out: &mut Out) {
    let (ma, mb) = (va::mapper(), vb::mapper());
    let (mut outside, mut nested) = (false, false);
    for op in &case.ops {
        match op[0].as_str() {
            "bigint" | "datum" => {
                let mut pos = 1;
                let d = parse_data(op, &mut pos);
                let (ra, rb) = (guard_mut(|| ma.map_plutus_datum(&d)), guard_mut(|| mb.map_plutus_datum(&d)));
                match (ra, rb) {
                    (Some(a), Some(b)) => {
                        let (mut sa, mut sb) = (vec![], vec![]);
                        va::show_data(&a, &mut sa); vb::show_data(&b, &mut sb);
                        if sa != sb { out.viol("schema-versions-disagree op=datum", format!("{} vs {}", sa.join(" "), sb.join(" "))); }
                        let src = tree_pallas(&d);
                        for (v, t) in [("v1alpha", va::tree(&a)), ("v1beta", vb::tree(&b))] {
                            if t != src {
                                // name the first integer that changed, if that is what happened
                                let key = match (&src, &t) {
                                    (Tree::Int(c), Tree::Int(_)) => format!("plutus-integer-not-exact range={} version={v}", range_of(c)),
                                    _ => format!("datum-content-differs version={v}"),
                                };
                                out.viol(key, format!("{} mapped to {}", op[1..].join(" "), sb.join(" ")));
                            }
                        }
                        if let Tree::Int(c) = &src {
                            if range_of(c) != "inside-i64" { outside = true; }
                            // small values must come out as Int
                            if range_of(c) == "inside-i64" && matches!(d, PlutusData::BigInt(BigInt::Int(_))) && !sb[0].starts_with("I ") {
                                out.viol("small-integer-not-mapped-to-int", sb.join(" "));
                            }
                        } else { nested = true; }
                        out.ok(sb.join(" "));
                    }
                    _ => { out.viol("panic op=map_plutus_datum", op[1..].join(" ")); out.panic(); }
                }
            }
            "u64" | "i64" => {
                let is_u = op[0] == "u64";
                let (uv, iv): (u64, i64) = if is_u { (op[1].parse().unwrap(), 0) } else { (1, op[1].parse().unwrap()) };
                let bytes = built_tx(uv, uv, None, if is_u { None } else { Some(iv) });
                let tx = MultiEraTx::decode_for_era(Era::Conway, &bytes).expect("built tx decodes");
                let (ta, tb) = (guard_mut(|| ma.map_tx(&tx)), guard_mut(|| mb.map_tx(&tx)));
                match (ta, tb) {
                    (Some(a), Some(b)) => {
                        let want = if is_u { canon_i128(uv as i128) } else { canon_i128(iv as i128) };
                        let got: Vec<(String, Option<Canon>, String)> = if is_u {
                            vec![("v1alpha fee".into(), a.fee.as_ref().and_then(va::canon), a.fee.as_ref().map(va::show_bigint).unwrap_or_default()),
                                 ("v1beta fee".into(), b.fee.as_ref().and_then(vb::canon), b.fee.as_ref().map(vb::show_bigint).unwrap_or_default()),
                                 ("v1alpha coin".into(), a.outputs[0].coin.as_ref().and_then(va::canon), a.outputs[0].coin.as_ref().map(va::show_bigint).unwrap_or_default()),
                                 ("v1beta coin".into(), b.outputs[0].coin.as_ref().and_then(vb::canon), b.outputs[0].coin.as_ref().map(vb::show_bigint).unwrap_or_default())]
                        } else {
                            vec![("v1alpha mint".into(), a.mint.first().and_then(|m| m.assets.first()).and_then(va::quantity), a.mint.first().and_then(|m| m.assets.first()).and_then(|x| match &x.quantity { Some(va::u5c::asset::Quantity::MintCoin(q)) => Some(va::show_bigint(q)), _ => None }).unwrap_or_default()),
                                 ("v1beta mint".into(), b.mint.first().and_then(|m| m.assets.first()).and_then(vb::quantity), b.mint.first().and_then(|m| m.assets.first()).and_then(|x| x.quantity.as_ref().map(vb::show_bigint)).unwrap_or_default())]
                        };
                        for (w, c, _) in &got { if c.as_ref() != Some(&want) { out.viol(format!("scalar-not-exact op={} field={}", op[0], w.replace(' ', "-")), op[1].clone()); } }
                        if got.iter().any(|g| g.2 != got[0].2) { out.viol(format!("schema-versions-disagree op={}", op[0]), ""); }
                        out.ok(got[0].2.clone());
                    }
                    _ => { out.viol(format!("panic op=map_tx scalar={}", op[0]), op[1].clone()); out.panic(); }
                }
            }
            "txview" => {
                let bar = op.iter().position(|t| t == "|").unwrap_or(op.len());
                let r = with_source_tx(&op[1..bar], |tx| {
                    let view = view_tokens(tx);
                    let (a, b) = (guard_mut(|| ma.map_tx(tx)), guard_mut(|| mb.map_tx(tx)));
                    (view, a, b, tx.hash().to_vec())
                });
                match r {
                    None => { out.viol("txview-source-unreadable", op[1..bar].join(" ")); out.reply("bad-source".into()); }
                    Some((view, Some(a), Some(b), _)) => {
                        if view[..] != op[(bar + 1).min(op.len())..] { out.viol("generator-view-differs-from-run-view", op[1..bar].join(" ")); }
                        let ((ha, _), (hb, rdb)) = (va::render_tx(&a), vb::render_tx(&b));
                        if ha != hb { out.viol("schema-versions-disagree op=map_tx", op[1..bar].join(" ")); }
                        // the independent field-by-field comparison with pallas-traverse
                        with_source_tx(&op[1..bar], |tx| { va::check_tx(tx, &a, &op[1..bar].join(" "), out); vb::check_tx(tx, &b, &op[1..bar].join(" "), out); });
                        if op[1] == "raw" {
                            if let Some(w) = unhex(&op[2]).and_then(|raw| wire_of(&raw)) {
                                va::check_wire(&w, &a, "raw", out); vb::check_wire(&w, &b, "raw", out);
                                if op.get(3).map(|x| x == "noncanonical").unwrap_or(false) { out.cov("non-canonical-tx"); }
                            } else { out.viol("harness-cannot-cut-wire", ""); }
                        }
                        if b.outputs.iter().any(|o| !o.assets.is_empty()) || !b.mint.is_empty() { outside = true; }
                        if !b.outputs.is_empty() && !b.inputs.is_empty() { nested = true; }
                        out.ok(hb.replace(" RD ", &format!(" rd={} ", rdb.unwrap_or_default())));
                    }
                    Some(_) => { out.viol("panic op=map_tx", op[1..bar].join(" ")); out.panic(); }
                }
            }
            "txdatum" => {
                let mut pos = 1;
                let d = parse_data(op, &mut pos);
                let cbor = minicbor::to_vec(&d).expect("datum encodes");
                let bytes = built_tx(1, 2, Some(cbor), None);
                let tx = MultiEraTx::decode_for_era(Era::Conway, &bytes).expect("built tx decodes");
                match (guard_mut(|| ma.map_tx(&tx)), guard_mut(|| mb.map_tx(&tx))) {
                    (Some(a), Some(b)) => { va::check_tx(&tx, &a, "generated", out); vb::check_tx(&tx, &b, "generated", out); }
                    _ => out.viol("panic op=map_tx generated-datum", op[1..].join(" ")),
                }
                out.reply("done".into());
            }
            "file" => {
                // file <block|tx> <name>: a hex file of <repo>/test_data
                let path = std::path::PathBuf::from(std::env::var("PV_REPO").unwrap_or_else(|_| "/repo".into())).join("test_data").join(&op[2]);
                let raw = std::fs::read_to_string(&path).ok().and_then(|s| hex::decode(s.trim()).ok());
                if let Some(raw) = raw {
                    if op[1] == "block" {
                        if let Ok(block) = MultiEraBlock::decode(&raw) {
                            match (guard_mut(|| ma.map_block(&block)), guard_mut(|| mb.map_block(&block))) {
                                (Some(a), Some(b)) => {
                                    let txs = block.txs();
                                    let (at, bt) = (a.body.map(|x| x.tx).unwrap_or_default(), b.body.map(|x| x.tx).unwrap_or_default());
                                    if at.len() != txs.len() || bt.len() != txs.len() { out.viol("mapped-block-tx-count-differs", op[2].clone()); }
                                    if a.header.as_ref().map(|h| (h.slot, h.hash.to_vec(), h.height)) != Some((block.slot(), block.hash().to_vec(), block.number())) { out.viol("mapped-block-header-differs version=v1alpha", op[2].clone()); }
                                    if b.header.as_ref().map(|h| (h.slot, h.hash.to_vec(), h.height)) != Some((block.slot(), block.hash().to_vec(), block.number())) { out.viol("mapped-block-header-differs version=v1beta", op[2].clone()); }
                                    for (i, tx) in txs.iter().enumerate() {
                                        if let Some(m) = at.get(i) { va::check_tx(tx, m, &format!("{} tx {i}", op[2]), out); }
                                        if let Some(m) = bt.get(i) { vb::check_tx(tx, m, &format!("{} tx {i}", op[2]), out); }
                                    }
                                    out.cov(format!("block-era-{:?}", block.era()).to_lowercase());
                                }
                                _ => out.viol("panic op=map_block", op[2].clone()),
                            }
                        } else { out.cov("file-not-a-block"); }
                    } else if let Ok(tx) = MultiEraTx::decode(&raw) {
                        match (guard_mut(|| ma.map_tx(&tx)), guard_mut(|| mb.map_tx(&tx))) {
                            (Some(a), Some(b)) => { va::check_tx(&tx, &a, &op[2], out); vb::check_tx(&tx, &b, &op[2], out); out.cov(format!("tx-era-{:?}", tx.era()).to_lowercase()); }
                            _ => out.viol("panic op=map_tx", op[2].clone()),
                        }
                    } else { out.cov("file-not-a-tx"); }
                } else { out.cov("file-unreadable"); }
                out.reply("done".into());
            }
            _ => out.reply("bad-op".into()),
        }
    }
    if outside { out.cov("integer-outside-i64"); }
    if nested { out.cov("structured-datum"); }
    if outside && nested { out.nontrivial(); }
}

// ------------------------------------------------------------------------------------------ generator

fn rbytes(g: &mut Gen, lo: u64, hi: u64) -> Vec<u8> { let n = g.rng.range(lo, hi) as usize; g.rng.bytes(n) }
fn gen_int(g: &mut Gen) -> String {
    const EDGE: [i128; 16] = [0, 1, -1, 23, 24, -25, 255, 65536, i64::MAX as i128, i64::MAX as i128 + 1, i64::MIN as i128, i64::MIN as i128 - 1,
        u64::MAX as i128, u64::MAX as i128 - 1, -(u64::MAX as i128) - 1, -(u64::MAX as i128)];
    match g.rng.below(10) {
        0..=3 => format!("i {}", EDGE[g.rng.below(16) as usize]),
        4 => format!("i {}", g.rng.next() as i64),
        5 => format!("i {}", g.rng.next() as i128),                              // 2^63 .. 2^64
        6 => format!("i {}", -(g.rng.next() as i128) - 1),
        7 => format!("u {}", hex(&rbytes(g, 0, 12))),
        8 => format!("n {}", hex(&rbytes(g, 0, 12))),
        _ => { let mut b = vec![0u8; g.rng.below(3) as usize]; b.extend(rbytes(g, 8, 9)); format!("{} {}", if g.rng.chance(1, 2) { "u" } else { "n" }, hex(&b)) }
    }
}
fn gen_data(g: &mut Gen, depth: u32, encodable: bool) -> String {
    let leaf = depth == 0 || g.rng.chance(2, 5);
    if leaf {
        return if g.rng.chance(2, 3) { gen_int(g) } else { format!("b {}", hex(&rbytes(g, 0, 6))) };
    }
    match g.rng.below(3) {
        0 => {
            let (tag, any) = match g.rng.below(4) { 0 => (121 + g.rng.below(7), "-".to_string()), 1 => (1280 + g.rng.below(121), "-".to_string()), 2 => (102, g.rng.below(300).to_string()),
                _ => if encodable { (121, "-".to_string()) } else { (g.rng.below(5000), if g.rng.chance(1, 2) { "-".into() } else { g.rng.u64_edgy().to_string() }) } };
            let n = g.rng.below(4);
            format!("c {} {} {}{}", tag, any, n, (0..n).map(|_| format!(" {}", gen_data(g, depth - 1, encodable))).collect::<String>())
        }
        1 => { let n = g.rng.below(3); format!("m {}{}", n, (0..n).map(|_| format!(" {} {}", gen_data(g, depth - 1, encodable), gen_data(g, depth - 1, encodable))).collect::<String>()) }
        _ => { let n = g.rng.below(4); format!("a {}{}", n, (0..n).map(|_| format!(" {}", gen_data(g, depth - 1, encodable))).collect::<String>()) }
    }
}

fn data_cbor(g: &mut Gen) -> Vec<u8> {
    let toks: Vec<String> = gen_data(g, 2, true).split(' ').map(|x| x.to_string()).collect();
    let mut pos = 0;
    minicbor::to_vec(&parse_data(&toks, &mut pos)).expect("datum encodes")
}

/// a random Conway transaction assembled with pallas-txbuilder (hex of its bytes)
fn gen_built(g: &mut Gen) -> Option<String> {
    const NATIVE: [&str; 3] = ["8200581c01010101010101010101010101010101010101010101010101010101", "82041903e8",
        "8303018282051864820181 8200581c02020202020202020202020202020202020202020202020202020202"];
    let h32 = |g: &mut Gen| -> [u8; 32] { let mut a = [0u8; 32]; a[0] = g.rng.below(3) as u8; a[31] = g.rng.below(4) as u8; a };
    let pol = |g: &mut Gen| -> [u8; 28] { [0x10 + g.rng.below(3) as u8; 28] };
    let mut inputs = vec![];
    let mut st = StagingTransaction::new().fee(g.rng.u64_edgy());
    for _ in 0..g.rng.range(1, 3) { let i = Input::new(h32(g).into(), g.rng.below(3)); inputs.push(i.clone()); st = st.input(i); }
    let mk_out = |g: &mut Gen| -> Option<Output> {
        let mut o = Output::new(addr(), g.rng.u64_edgy());
        for _ in 0..g.rng.below(3) { let amt = match g.rng.below(4) { 0 => u64::MAX / 2 + 1 + g.rng.below(1000), _ => 1 + g.rng.below(100000) }; o = o.add_asset(pol(g).into(), rbytes(g, 1, 3), amt).ok()?; }
        match g.rng.below(4) { 0 => o = o.set_datum_hash({ let mut a = [7u8; 32]; a[3] = g.rng.below(200) as u8; a }.into()), 1 | 2 => o = o.set_inline_datum(data_cbor(g)), _ => {} }
        match g.rng.below(5) {
            0 => o = o.set_inline_script(pallas_txbuilder::ScriptKind::Native, unhex(&NATIVE[g.rng.below(3) as usize].replace(' ', "")).unwrap()),
            1 => o = o.set_inline_script([pallas_txbuilder::ScriptKind::PlutusV1, pallas_txbuilder::ScriptKind::PlutusV2, pallas_txbuilder::ScriptKind::PlutusV3][g.rng.below(3) as usize], g.rng.bytes(5)),
            _ => {}
        }
        Some(o)
    };
    for _ in 0..g.rng.range(1, 3) { st = st.output(mk_out(g)?); }
    if g.rng.chance(1, 2) { st = st.mint_asset(pol(g).into(), vec![0x41], match g.rng.below(4) { 0 => i64::MIN, 1 => i64::MAX, 2 => -7, _ => 9 }).ok()?; }
    if g.rng.chance(1, 3) { st = st.collateral_input(Input::new(h32(g).into(), 1)).collateral_output(mk_out(g)?); }
    if g.rng.chance(1, 3) { st = st.reference_input(Input::new(h32(g).into(), g.rng.below(5))); }
    if g.rng.chance(1, 2) { st = st.valid_from_slot(g.rng.u64_edgy()); }
    if g.rng.chance(1, 2) { st = st.invalid_from_slot(g.rng.u64_edgy()); }
    for _ in 0..g.rng.below(3) { st = st.datum(data_cbor(g)); }
    if g.rng.chance(1, 2) {
        let i = inputs[g.rng.below(inputs.len() as u64) as usize].clone();
        st = st.add_spend_redeemer(i, data_cbor(g), Some(pallas_txbuilder::ExUnits { mem: g.rng.u64_edgy(), steps: g.rng.u64_edgy() }));
    }
    let built = guard_mut(|| st.build_conway_raw())?.ok()?;
    Some(hex(&built.tx_bytes.0))
}

fn txview_line(src: &str) -> Option<String> {
    let toks: Vec<String> = src.split(' ').map(|x| x.to_string()).collect();
    with_source_tx(&toks, |tx| format!("txview {} | {}", src, view_tokens(tx).join(" ")))
}

/// `[body, wits, true, aux]` -> `[body, wits, false, aux]` (None if the third element is not the one-byte `true`)
fn flip_validity_flag(raw: &[u8]) -> Option<Vec<u8>> {
    let mut d = pallas_codec::minicbor::Decoder::new(raw);
    d.array().ok()?;
    d.skip().ok()?;
    d.skip().ok()?;
    let p = d.position();
    if raw.get(p) == Some(&0xf5) { let mut v = raw.to_vec(); v[p] = 0xf4; Some(v) } else { None }
}

pub fn generate(g: &mut Gen) {
    // every block and transaction file of test_data, a few per case
    let dir = std::path::PathBuf::from(std::env::var("PV_REPO").unwrap_or_else(|_| "/repo".into())).join("test_data");
    let mut files: Vec<(String, String)> = std::fs::read_dir(&dir).map(|rd| rd.filter_map(|e| e.ok()).filter_map(|e| {
        let n = e.file_name().to_string_lossy().to_string();
        if n.ends_with(".block") { Some(("block".to_string(), n)) } else if n.ends_with(".tx") { Some(("tx".to_string(), n)) } else { None }
    }).collect()).unwrap_or_default();
    files.sort();
    let per = if g.thorough() { 1 } else { 12 };
    let take = if g.thorough() { files.len() } else { files.len().min(36) };
    // quick: a rotating window of the files (seed-dependent), thorough: all of them
    let start = if g.thorough() { 0 } else { (g.seed as usize * 36) % files.len().max(1) };
    let chosen: Vec<(String, String)> = (0..take).map(|i| files[(start + i) % files.len()].clone()).collect();
    for chunk in chosen.chunks(per) { g.case(chunk.iter().map(|(k, n)| format!("file {k} {n}"))); }
    // the same files through the map_tx model: every transaction (quick: the first few of each block)
    let dirp = dir.clone();
    for (k, n) in &chosen {
        let mut ops = vec![];
        if k == "tx" { if let Some(l) = txview_line(&format!("file tx {n}")) { ops.push(l); } }
        else {
            let count = std::fs::read_to_string(dirp.join(n)).ok().and_then(|s| hex::decode(s.trim()).ok())
                .and_then(|raw| MultiEraBlock::decode(&raw).ok().map(|b| b.txs().len())).unwrap_or(0);
            let limit = if g.thorough() { count } else { count.min(4) };
            for i in 0..limit { if let Some(l) = txview_line(&format!("file block {n} {i}")) { ops.push(l); } }
        }
        if !ops.is_empty() { g.case(ops); }
    }
    for case in 0..g.cases {
        let mut ops = vec![];
        for _ in 0..g.rng.range(3, 8) {
            ops.push(match g.rng.below(10) {
                0..=2 => format!("bigint {}", gen_int(g)),
                3 => format!("u64 {}", g.rng.u64_edgy()),
                4 => { let v = match g.rng.below(5) { 0 => i64::MAX, 1 => i64::MIN, 2 => -1, 3 => 1, _ => g.rng.next() as i64 }; format!("i64 {}", if v == 0 { 1 } else { v }) }
                5..=7 => format!("datum {}", gen_data(g, 3, false)),
                _ => format!("txdatum {}", gen_data(g, 3, true)),
            });
        }
        if case % 4 == 0 { ops.push(format!("datum c 121 - 2 i 9223372036854775808 m 1 b 01 a 2 i -18446744073709551616 n {}", hex(&[0xffu8; 9]))); }
        for _ in 0..2 {
            // (`Output::add_asset` adds quantities with an unchecked `+=`: two large amounts of one asset panic under
            // overflow checks -- C40's staging-overflow outcome, not a mapping matter; such a draw is skipped)
            if let Some(h) = guard_mut(|| gen_built(g)).flatten() {
                if let Some(l) = txview_line(&format!("raw {h}")) { ops.push(l); }
                // the same transaction with its phase-2 validity flag cleared (`f5` -> `f4` after body and witness set):
                // the mapped content (outputs, inputs, fee, ...) must still be the ledger's, only `successful` changes
                if let Some(inv) = flip_validity_flag(&unhex(&h).unwrap()) {
                    if MultiEraTx::decode_for_era(Era::Conway, &inv).is_ok() {
                        if let Some(l) = guard_mut(|| txview_line(&format!("raw {} invalidflag", hex(&inv)))).flatten() { ops.push(l); }
                    }
                }
                // the same transaction in legal but non-canonical CBOR: inside the #6.24-wrapped items (inline datums,
                // script refs) and anywhere else (witness datums, redeemer data, heads, definite <-> indefinite), kept
                // only if pallas still decodes it
                let raw = unhex(&h).unwrap();
                let mut muts: Vec<Vec<u8>> = cst::single_site_mutants(&raw, 6, 2, &mut g.rng);
                for _ in 0..2 { if let Some((m, _)) = cst::mutant(&raw, &mut g.rng) { muts.push(m); } }
                for m in muts {
                    if MultiEraTx::decode_for_era(Era::Conway, &m).is_err() { continue; }
                    if let Some(l) = guard_mut(|| txview_line(&format!("raw {} noncanonical", hex(&m)))).flatten() { ops.push(l); }
                }
            }
        }
        g.case(ops);
    }
}
