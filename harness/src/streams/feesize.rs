//! stream `feesize` — C36: the size the validators measure vs the ledger size, and the fee / size rules at
//! their exact boundaries.
//!
//!   size <fixture> <era> <body> <wits> <aux|->                       -> ok <get_*_tx_size> <MultiEraTx::size>
//!   fee <fixture> <era> <body> <wits> <aux|-> <fee> <a> <b> <max>    -> validate_txs with minfee_a/minfee_b/max_transaction_size replaced
//!   minfee <era> <fixture> <fee> <size> <a> <b>                      -> check_min_fee / check_fees hook with an arbitrary size
//!   maxsize <era> <size> <max>                                       -> check_tx_size hook
//! `<body> <wits> <aux>` are the byte lengths of the original CBOR parts (what the Lean model is given); `run_case`
//! measures the ledger size independently as `len(serialised tx) - 1` (the validity flag is one byte).
//! replies: ok .. | err fee-below-min | err max-size | err other | panic
use crate::fixtures::{self, params, txparts, Fixture};
use crate::fw::*;
use pallas_traverse::{Era, MultiEraTx};
use pallas_validate::phase1::{alonzo, babbage, conway, shelley_ma};
use pallas_validate::utils::{self, AlonzoError as A, MultiEraProtocolParameters as P, PostAlonzoError as PA, ShelleyMAError as S, ValidationError as VE};

pub const NAME: &str = "feesize";

fn era_tok(f: &Fixture) -> &'static str {
    match f.era { Era::Shelley | Era::Allegra | Era::Mary => "shelley", Era::Alonzo => "alonzo", Era::Babbage => "babbage", _ => "conway" }
}

fn parts_text(f: &Fixture) -> String {
    let p = txparts::split_fixture(f);
    format!("{} {} {}", p.body.len(), p.wits.len(), p.aux.map(|a| a.len().to_string()).unwrap_or("-".into()))
}

/// serialised transaction without the validity flag (`f5`/`f4`, one byte)
fn ledger_size(f: &Fixture) -> u64 { f.tx_cbor.len() as u64 - 1 }

fn validator_size(f: &Fixture) -> Option<u32> {
    match &f.tx() {
        MultiEraTx::AlonzoCompatible(x, _) => Some(utils::get_alonzo_comp_tx_size(x)),
        MultiEraTx::Babbage(x) => utils::get_babbage_tx_size(x),
        MultiEraTx::Conway(x) => utils::get_conway_tx_size(x),
        _ => None,
    }
}

fn class_of(e: &VE) -> &'static str {
    match e {
        VE::Alonzo(A::FeeBelowMin) | VE::PostAlonzo(PA::FeeBelowMin) | VE::ShelleyMA(S::FeesBelowMin) => "fee-below-min",
        VE::Alonzo(A::MaxTxSizeExceeded) | VE::PostAlonzo(PA::MaxTxSizeExceeded) | VE::ShelleyMA(S::MaxTxSizeExceeded) => "max-size",
        _ => "other",
    }
}

fn edgy_u32(g: &mut Gen) -> u64 {
    match g.rng.below(6) { 0 => 0, 1 => 1, 2 => u32::MAX as u64, 3 => g.rng.below(100), 4 => g.rng.below(1 << 20), _ => g.rng.below(1 << 32) }
}

pub fn generate(g: &mut Gen) {
    let fx = fixtures::post_byron();
    let mut first: Vec<String> = fx.iter().map(|f| format!("size {} {} {}", f.name, era_tok(f), parts_text(f))).collect();
    g.case(first.drain(..));
    for i in 0..g.cases {
        let f = &fx[i % fx.len()];
        let l = ledger_size(f);
        let fee = f.tx().fee().unwrap_or(0);
        let (a0, b0) = params::minfee(&f.env).unwrap();
        let mut ops = vec![];
        for _ in 0..g.rng.range(2, 4) {
            // coefficients with a*l + b = fee + delta, delta in {0 (fee = min), +1 (fee = min-1), -1, ...}
            let a: u64 = match g.rng.below(6) { 0 => 0, 1 => 1, 2 => a0 as u64, 3 => g.rng.range(2, 300), 4 => fee / l.max(1), _ => g.rng.below(fee / l.max(1) + 2) };
            let delta: i64 = match g.rng.below(8) { 0 | 1 => 0, 2 | 3 => 1, 4 => -1, 5 => g.rng.below(1000) as i64, 6 => -(g.rng.below(1000) as i64), _ => 2 };
            let target = fee as i64 + delta - (a * l) as i64;
            let (a, b) = if target >= 0 && target <= u32::MAX as i64 && a <= u32::MAX as u64 { (a, target as u64) }
                else if g.rng.chance(1, 3) { (edgy_u32(g), edgy_u32(g)) } else { (a0 as u64, b0 as u64) };
            let max = match g.rng.below(8) { 0 | 1 => l, 2 | 3 => l - 1, 4 => l + 1, 5 => params::max_tx_size(&f.env).unwrap() as u64, 6 => edgy_u32(g), _ => l + g.rng.below(5000) };
            ops.push(format!("fee {} {} {} {fee} {a} {b} {max}", f.name, era_tok(f), parts_text(f)));
        }
        for _ in 0..g.rng.range(1, 3) {
            let size = match g.rng.below(4) { 0 => l, 1 => edgy_u32(g), _ => g.rng.below(20000) };
            let a = match g.rng.below(3) { 0 => a0 as u64, 1 => edgy_u32(g), _ => g.rng.below(1000) };
            let want = (a as u128) * (size as u128);
            let b = if want <= fee as u128 && g.rng.chance(2, 3) { let d = fee - want as u64; (d + [0u64, 1, 0, 2][g.rng.below(4) as usize]).saturating_sub(g.rng.below(2)).min(u32::MAX as u64) } else { edgy_u32(g) };
            ops.push(format!("minfee {} {} {fee} {size} {a} {b}", era_tok(f), f.name));
            let s = edgy_u32(g);
            let m = match g.rng.below(4) { 0 => s, 1 => s.saturating_sub(1), 2 => s.saturating_add(1).min(u32::MAX as u64), _ => edgy_u32(g) };
            ops.push(format!("maxsize {} {s} {m}", era_tok(f)));
        }
        g.case(ops);
    }
}

pub fn run_case(case: &Case, out: &mut Out) {
    let (mut acc, mut rej) = (false, false);
    for op in &case.ops {
        match op[0].as_str() {
            "size" => {
                let Some(f) = fixtures::by_name(&op[1]) else { out.reply("bad-op".into()); continue };
                let v = validator_size(&f).map(|x| x as u64);
                let t = f.tx().size() as u64;
                let l = ledger_size(&f);
                if v != Some(l) { out.viol(format!("validator-size-not-ledger-size era={}", era_tok(&f)), format!("{}: get_*_tx_size = {:?}, serialised tx without validity flag = {l}", f.name, v)); }
                if t != l { out.viol(format!("traversal-size-not-ledger-size era={}", era_tok(&f)), format!("{}: MultiEraTx::size = {t}, ledger size {l}", f.name)); }
                out.ok(format!("{} {t}", v.map(|x| x.to_string()).unwrap_or("none".into())));
                out.cov(format!("size:{}", era_tok(&f)));
                out.nontrivial();
            }
            "fee" => {
                let Some(mut f) = fixtures::by_name(&op[1]) else { out.reply("bad-op".into()); continue };
                let (a, b, max): (u64, u64, u64) = (op[7].parse().unwrap(), op[8].parse().unwrap(), op[9].parse().unwrap());
                params::set_minfee(&mut f.env, a as u32, b as u32);
                params::set_max_tx_size(&mut f.env, max as u32);
                let l = ledger_size(&f) as u128;
                let fee = f.tx().fee().unwrap_or(0) as u128;
                let min = a as u128 * l + b as u128;
                let fits = min <= u64::MAX as u128;
                let era = era_tok(&f);
                match guard_mut(|| f.validate()) {
                    None => out.panic(),
                    Some(Ok(())) => {
                        acc = true;
                        if fee < min { out.viol(format!("accepts-fee-below-ledger-min era={era}"), format!("{}: fee {fee} < {a}*{l}+{b} = {min}", f.name)); }
                        if l > max as u128 { out.viol(format!("accepts-oversize era={era}"), format!("{}: ledger size {l} > max {max}", f.name)); }
                        out.ok("");
                    }
                    Some(Err(e)) => {
                        rej = true;
                        let c = class_of(&e);
                        if fits && fee >= min && l <= max as u128 && c != "other" {
                            out.viol(format!("rejects-at-ledger-boundary era={era} {c}"), format!("{}: fee {fee} >= {a}*{l}+{b} = {min}, size {l} <= max {max}, verdict {c}", f.name));
                        }
                        out.err(c);
                    }
                }
                out.cov(format!("fee:{era}:{}", if fee == min { "fee=min" } else if fee + 1 == min { "fee=min-1" } else { "fee-other" }));
                out.cov(format!("fee:{era}:{}", if l == max as u128 { "max=size" } else if l == max as u128 + 1 { "max=size-1" } else { "max-other" }));
            }
            "minfee" => {
                let Some(f) = fixtures::by_name(&op[2]) else { out.reply("bad-op".into()); continue };
                let (size, a, b): (u64, u64, u64) = (op[4].parse().unwrap(), op[5].parse().unwrap(), op[6].parse().unwrap());
                let mut env = fixtures::clone_env(&f.env);
                params::set_minfee(&mut env, a as u32, b as u32);
                let size = size as u32;
                let tx = f.tx();
                let res = guard_mut(|| match (&tx, &env.prot_params) {
                    (MultiEraTx::AlonzoCompatible(x, Era::Alonzo), P::Alonzo(pp)) => alonzo::verif_hooks::check_min_fee(&x.transaction_body, &size, pp),
                    (MultiEraTx::AlonzoCompatible(x, _), P::Shelley(pp)) => shelley_ma::verif_hooks::check_fees(&x.transaction_body, &size, pp),
                    (MultiEraTx::Babbage(x), P::Babbage(pp)) => babbage::verif_hooks::check_min_fee(&x.transaction_body, &size, pp),
                    (MultiEraTx::Conway(x), P::Conway(pp)) => conway::verif_hooks::check_min_fee(&x.transaction_body, &size, pp),
                    _ => panic!("era mismatch"),
                });
                match res { None => out.panic(), Some(Ok(())) => { acc = true; out.ok("") } Some(Err(e)) => { rej = true; out.err(class_of(&e)) } }
            }
            "maxsize" => {
                let (s, m): (u64, u64) = (op[2].parse().unwrap(), op[3].parse().unwrap());
                let name = match op[1].as_str() { "shelley" => "shelley_ma.successful_mainnet_shelley_tx", "alonzo" => "alonzo.successful_mainnet_tx", "babbage" => "babbage.successful_mainnet_tx", _ => "conway.successful_mainnet_tx" };
                let mut env = fixtures::clone_env(&fixtures::by_name(name).unwrap().env);
                params::set_max_tx_size(&mut env, m as u32);
                let s = s as u32;
                let res = guard_mut(|| match &env.prot_params {
                    P::Shelley(pp) => shelley_ma::verif_hooks::check_tx_size(&s, pp),
                    P::Alonzo(pp) => alonzo::verif_hooks::check_tx_size(&s, pp),
                    P::Babbage(pp) => babbage::verif_hooks::check_tx_size(&s, pp),
                    P::Conway(pp) => conway::verif_hooks::check_tx_size(&s, pp),
                    _ => panic!("era"),
                });
                match res { None => out.panic(), Some(Ok(())) => { acc = true; out.ok("") } Some(Err(e)) => { rej = true; out.err(class_of(&e)) } }
            }
            _ => out.reply("bad-op".into()),
        }
    }
    if acc && rej { out.nontrivial(); }
}
