//! stream `msgfuzz` — C09 (network half): random bytes and structure-aware mutations of encoded
//! mini-protocol messages through `minicbor::decode::<Message>` of both stacks under `catch_unwind`;
//! the outcome (value / end-of-input / other error) is compared with the Lean decoder model.
use crate::fw::*;
#[path = "../fixtures/netmsg.rs"]
mod netmsg;
#[path = "../fixtures/mutate.rs"]
mod mutate;
use netmsg::*;

pub const NAME: &str = "msgfuzz";

pub fn generate(g: &mut Gen) {
    let protos = all_protos();
    let mut pairs: Vec<(String, u64)> = vec![];
    for p in &protos {
        let short = p.split_once('.').unwrap().1;
        for k in 0..variants(short) { pairs.push((p.clone(), k)); }
    }
    for i in 0..g.cases {
        let (proto, k) = pairs[i % pairs.len()].clone();
        let c = codec(&proto).expect("codec");
        let v = g_msg(&mut g.rng, &proto, k);
        let base = match guard(|| (c.enc)(&v)) { Some(Some(Ok(b))) => b, _ => vec![0x80] };
        let mut ops = vec![format!("# base {} {}", proto, v.show())];
        let n_mut = if g.thorough() { 12 } else { 8 };
        for j in 0..n_mut {
            let mut bytes = base.clone();
            match g.rng.below(10) {
                0 => { let k = g.rng.below(12) as usize; bytes = g.rng.bytes(k); }                               // random bytes
                1 => { let k = g.rng.below(bytes.len() as u64 + 1) as usize; bytes.truncate(k); }                  // every prefix class
                2 => {                                                                                             // two messages back to back / foreign protocol
                    let (p2, k2) = pairs[g.rng.below(pairs.len() as u64) as usize].clone();
                    let v2 = g_msg(&mut g.rng, &p2, k2);
                    if let Some(Some(Ok(b2))) = guard(|| (codec(&p2).unwrap().enc)(&v2)) { if g.rng.chance(1, 2) { bytes.extend_from_slice(&b2) } else { bytes = b2 } }
                }
                _ => {
                    let edits = 1 + (j % 3);
                    for _ in 0..edits {
                        let hs = mutate::heads(&bytes);
                        let e = mutate::gen_edit(&mut g.rng, &bytes, &hs);
                        mutate::apply(&mut bytes, &e);
                    }
                }
            }
            if bytes.len() > 4096 { bytes.truncate(4096); }
            ops.push(format!("dec {} {}", proto, hex(&bytes)));
        }
        g.case(ops);
    }
}

pub fn run_case(case: &Case, out: &mut Out) {
    let (mut oks, mut errs) = (0, 0);
    for op in &case.ops {
        match op[0].as_str() {
            "dec" if op.len() == 3 => {
                let (Some(c), Some(bytes)) = (codec(&op[1]), unhex(&op[2])) else { out.reply("bad-op".into()); continue };
                match guard(|| (c.dec)(&bytes)) {
                    None => { out.viol(format!("panic decode {}", op[1]), format!("minicbor::decode::<Message> panicked on {}", op[2])); out.panic(); }
                    Some(Ok(v)) => { oks += 1; out.cov(format!("ok:{}", op[1])); out.ok(v.show()) }
                    Some(Err(DecErr::Eoi)) => { errs += 1; out.err("eoi") }
                    Some(Err(DecErr::Other)) => { errs += 1; out.err("other") }
                }
            }
            _ => out.reply("bad-op".into()),
        }
    }
    if oks > 0 && errs > 0 { out.nontrivial(); }
}
