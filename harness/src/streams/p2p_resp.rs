//! stream `p2p_resp` — C29 (responder half): arbitrary interface-event and command sequences against
//! the real `ResponderBehavior` and the Lean model (`Model/P2PResponder.lean`). Oracle: no panic.
use crate::fw::*;
#[path = "../fixtures/p2p.rs"]
mod p2p;
use p2p::{Resp, Step};

pub const NAME: &str = "p2p_resp";

const MSGS: [&str; 45] = [
    "tx.reqidsnb",
    "hs.propose:13-764824073", "hs.propose:13-764824073,14-764824073", "hs.propose:7-764824073", "hs.propose:13-2", "hs.propose:-",
    "hs.propose:15-764824073,13-764824073", "hs.accept:13:1", "hs.refuse", "hs.query",
    "ka.keepalive:7", "ka.keepalive:65535", "ka.resp:7", "ka.done",
    "ps.req:5", "ps.peers:1,2", "ps.done",
    "bf.req:4", "bf.clientdone", "bf.start", "bf.noblocks", "bf.block:9", "bf.batchdone",
    "cs.reqnext", "cs.await", "cs.fwd:3", "cs.bwd:2", "cs.find", "cs.found:1", "cs.notfound", "cs.done",
    "tx.init", "tx.reqids", "tx.replyids", "tx.reqtxs", "tx.replytxs:2", "tx.replytxs:0", "tx.done",
    "ln.reqnext", "ln.offer", "ln.done", "lf.blockreq:5", "lf.block", "lf.txsreq:6", "lf.done",
];

fn gen_case(g: &mut Gen, peers: u64, len: usize) -> Vec<String> {
    let tbl = *g.rng.pick(&["13-764824073", "13-764824073,15-764824073", "14-764824073", "13-764824073,14-1"]);
    let mut ops = vec![format!("rcfg {} {} {}", g.rng.range(0, 2), g.rng.range(1, 3), tbl)];
    while ops.len() < len + 1 {
        let p = g.rng.below(peers);
        let m = |g: &mut Gen| g.rng.pick(&MSGS).to_string();
        match g.rng.below(36) {
            0..=5 => ops.push(format!("connected {p}")),
            6..=8 => { ops.push(format!("recv {p} hs.propose:13-764824073,14-764824073")); }
            9..=16 => { let k = g.rng.range(1, 3); let ms: Vec<String> = (0..k).map(|_| m(g)).collect(); ops.push(format!("recv {p} {}", ms.join(" "))); }
            17..=20 => { let x = m(g); ops.push(format!("sent {p} {x}")); }
            21..=23 => ops.push(if g.rng.chance(1, 3) { "idle".into() } else { "hk".into() }),
            24..=25 => ops.push(format!("disconnected {p}")),
            26..=27 => ops.push(format!("error {p}")),
            28 => ops.push(format!("ban {p}")),
            29 => ops.push(format!("disc {p}")),
            30 => ops.push(format!("isect {p} 3")),
            31 => ops.push(if g.rng.chance(1, 2) { format!("header {p} 4") } else { format!("rollback {p} 2") }),
            32 => ops.push(format!("blocks {p} {}", *g.rng.pick(&["1,2", "-", "7"]))),
            33 => ops.push(format!("peers {p} 1,2,3")),
            34 => ops.push(format!("{} {p}", *g.rng.pick(&["ebann", "eboffer", "ebtxsoffer", "votes", "eb", "ebtxs"]))),
            _ => { ops.push(format!("sent {p} hs.accept:13:1")); }
        }
    }
    ops
}

/// counter families of the responder: connection storms on one host around `max_connections_per_ip` (unchecked `+= 1`,
/// `saturating_sub` on the way down, disconnects of peers that were never accepted), error storms around
/// `max_error_count`, and re-connects of banned peers
fn gen_counter_case(g: &mut Gen, family: u64) -> Vec<String> {
    let mut ops = vec![format!("rcfg {} {} 13-764824073", g.rng.range(0, 2), g.rng.range(1, 4))];
    match family {
        0 => {
            for _ in 0..g.rng.range(10, 60) {
                let p = g.rng.below(6);   // hosts 0 and 1
                ops.push(match g.rng.below(7) { 0..=3 => format!("connected {p}"), 4..=5 => format!("disconnected {p}"), _ => "hk".into() });
            }
        }
        _ => {
            for p in 0..3u64 { ops.push(format!("connected {p}")); ops.push(format!("recv {p} hs.propose:13-764824073")); }
            for _ in 0..g.rng.range(10, 60) {
                let p = g.rng.below(4);
                ops.push(match g.rng.below(8) {
                    0..=3 => format!("error {p}"), 4 => "hk".into(), 5 => format!("disconnected {p}"), 6 => format!("connected {p}"), _ => format!("ban {p}"),
                });
            }
        }
    }
    ops
}

pub fn generate(g: &mut Gen) {
    for i in 0..(g.cases / 10).max(6) { let ops = gen_counter_case(g, i as u64 % 2); g.case(ops); }
    for i in 0..g.cases {
        let (peers, len) = match i % 3 { 0 => (3, g.rng.range(5, 30)), 1 => (8, g.rng.range(20, 120)), _ => (12, g.rng.range(100, 300)) };
        let ops = gen_case(g, peers, len as usize);
        g.case(ops);
    }
}

pub fn run_case(case: &Case, out: &mut Out) {
    let mut it: Option<Resp> = None;
    let (mut viols, mut inits, mut rejected) = (0, 0, 0);
    for op in &case.ops {
        if op[0] == "rcfg" && op.len() == 4 {
            match (op[1].parse::<u32>(), op[2].parse::<usize>()) {
                (Ok(a), Ok(b)) => match Resp::new(a, b, &op[3]) {
                    Some(r) => { out.ok(r.state_text(&[])); it = Some(r); }
                    None => out.reply("bad-op".into()),
                },
                _ => out.reply("bad-op".into()),
            }
            continue;
        }
        let Some(i) = it.as_mut() else { out.reply("bad-op".into()); continue; };
        match i.exec(op) {
            Step::Bad => out.reply("bad-op".into()),
            Step::Dead => out.reply("dead".into()),
            Step::Panic => {
                let what = if op[0] == "recv" || op[0] == "sent" { format!("{} {}", op[0], op.get(2).map(|m| m.split(':').next().unwrap_or("")).unwrap_or("")) } else { op[0].clone() };
                out.viol(format!("panic responder {}", what), format!("ResponderBehavior panicked on {:?}", op));
                out.panic();
            }
            Step::Ok { annot, outs } => {
                let text = i.state_text(&outs);
                if text.contains(":v1:") { viols += 1; }
                if outs.iter().any(|o| o.text().starts_with("ev.init")) { inits += 1; }
                if op[0] == "connected" && outs.iter().any(|o| o.text().starts_with("disconnect")) { rejected += 1; }
                out.ok(format!("{}{}", annot, text));
            }
        }
    }
    if viols > 0 { out.cov("violation-flagged"); }
    if inits > 0 { out.cov("peer-initialized"); }
    if rejected > 0 { out.cov("connection-rejected"); }
    if viols > 0 && inits > 0 { out.nontrivial(); }
}
