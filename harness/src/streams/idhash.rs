//! stream `idhash` — C05: tx id / block hash / header hash / datum hash / native-script hash as
//! reported by pallas, on every corpus tx / block / header and on structural CBOR mutants of them
//! that pallas still decodes. The Lean driver is the independent oracle of the diff (it slices the
//! spans with its own strict parser and hashes with its own BLAKE2b); `out.viol` is a second,
//! byte-offset oracle (minicbor `skip` + pallas-crypto Hasher) so a failure comes with a replay.
use crate::fw::*;
use pallas_codec::minicbor::{data::Type, Decoder};
use pallas_crypto::hash::Hasher;
use pallas_codec::{minicbor, utils::KeepRaw};
use pallas_primitives::alonzo::{NativeScript, PlutusData};
use pallas_primitives::{alonzo, babbage, byron, conway};
use pallas_primitives::conway::DatumOption;
use pallas_traverse::{Era, MultiEraBlock, MultiEraHeader, MultiEraTx, OriginalHash};

#[path = "../fixtures/w12.rs"]
mod fx;
#[path = "../fixtures/w12_cst.rs"]
mod cst;

pub const NAME: &str = "idhash";

fn era_of(k: &str) -> Option<Era> {
    Some(match k { "byron" => Era::Byron, "alonzo" => Era::Alonzo, "babbage" => Era::Babbage, "conway" => Era::Conway, _ => return None })
}
fn tx_ops(era: &str, tx: &[u8]) -> Vec<String> {
    vec![format!("tx {} {}", era, hex(tx)), "datums".into(), "scripts".into(), "inline".into()]
}
fn header_variant(wrapper_tag: u64) -> (u8, Option<u8>) {
    match wrapper_tag { 0 => (0, Some(0)), 1 => (0, Some(1)), t => ((t - 1) as u8, None) }
}

/// every (tag, subtag) of `MultiEraHeader::decode` that selects the decoder fitting a header taken
/// from a block with this wrapper tag; the first one is the natural one
fn hdr_combos(wrapper_tag: u64) -> Vec<(u8, Option<u8>)> {
    match wrapper_tag {
        0 => vec![(0, Some(0))],
        1 => vec![(0, Some(1)), (0, None), (0, Some(7)), (0, Some(255))],
        2..=5 => { let n = (wrapper_tag - 1) as u8; let mut v = vec![(n, None)]; for t in 1..=4u8 { if t != n { v.push((t, None)); } } v.push((n, Some(0))); v }
        t => { let n = (t - 1) as u8; let mut v = vec![(n, None)]; for t in [5u8, 6, 7, 255] { if t != n { v.push((t, None)); } } v }
    }
}
fn hdr_op(c: (u8, Option<u8>), h: &[u8]) -> String {
    format!("hdr {} {} {}", c.0, match c.1 { Some(s) => s.to_string(), None => "-".into() }, hex(h))
}
fn body_ok(era: &str, m: &[u8]) -> bool {
    match era {
        "alonzo" => minicbor::decode::<KeepRaw<alonzo::TransactionBody>>(m).is_ok(),
        "babbage" => minicbor::decode::<KeepRaw<babbage::TransactionBody>>(m).is_ok(),
        "conway" => minicbor::decode::<KeepRaw<conway::TransactionBody>>(m).is_ok(),
        _ => false,
    }
}
const SYS_KINDS: [(usize, &str); 5] = [(0, "to-indef"), (1, "to-def"), (2, "widen-head"), (4, "chunk-string"), (7, "head-8-bytes")];

/// up to `tries` attempts to find a mutant accepted by `accept`
fn mutants<F: Fn(&[u8]) -> bool>(rng: &mut Rng, bytes: &[u8], want: usize, tries: usize, accept: F) -> Vec<(Vec<u8>, Vec<&'static str>)> {
    let mut res = vec![];
    for _ in 0..tries {
        if res.len() >= want { break; }
        if let Some((m, kinds)) = cst::mutant(bytes, rng) { if accept(&m) { res.push((m, kinds)); } }
    }
    res
}

pub fn generate(g: &mut Gen) {
    let per = if g.thorough() { 12 } else { 2 };
    let budget = g.cases; // number of mutant cases wanted overall (corpus originals always run)
    let mut made = 0usize;
    let mut txs: Vec<(&'static str, Vec<u8>)> = vec![];
    // corpus transactions
    for (name, bytes) in fx::hex_files("tx") {
        let era = match fx::era_kind_of_name(&name) {
            Some(e) => e,
            None => {
                let mut f = None;
                for (e, k) in [(Era::Conway, "conway"), (Era::Babbage, "babbage"), (Era::Alonzo, "alonzo"), (Era::Byron, "byron")] {
                    if MultiEraTx::decode_for_era(e, &bytes).is_ok() { f = Some(k); break; }
                }
                match f { Some(k) => k, None => continue }
            }
        };
        txs.push((era, bytes));
    }
    // corpus blocks: the block itself, its header, its transactions
    let mut blocks: Vec<Vec<u8>> = vec![];
    for (_n, b) in fx::hex_files("block") {
        blocks.push(b);
    }
    if let Some(e) = fx::small_ebb() { blocks.push(e); }
    // immutable-db chunks: concatenated blocks
    for b in fx::chunk_blocks(if g.thorough() { 8 } else { 400 }) { blocks.push(b); }
    let mut headers: Vec<(u64, Vec<u8>)> = vec![];
    for (n, b) in fx::hex_files("header") {
        headers.push((if n.starts_with("byron") { 1 } else { 5 }, b));
    }
    for b in &blocks {
        g.case(vec![format!("block {}", hex(b))]);
        let Some(rb) = fx::split_block(b) else { continue };
        headers.push((rb.tag, b[rb.header.0..rb.header.1].to_vec()));
        let era = fx::era_kind_of_tag(rb.tag);
        let lim = if g.thorough() { 6 } else { 2 };
        for s in rb.byron_payloads.iter().take(lim) { txs.push(("byron", b[s.0..s.1].to_vec())); }
        for i in 0..rb.bodies.len().min(lim) { if let Some(t) = fx::standalone_tx(b, &rb, i, true) { txs.push((era, t)); } }
    }
    for (t, h) in &headers {
        g.case(vec![format!("header {} {}", t, hex(h))]);
        // every entry point of MultiEraHeader::decode that takes this header
        g.case(hdr_combos(*t).into_iter().map(|c| hdr_op(c, h)).collect::<Vec<_>>());
    }
    // stand-alone KeepRaw values: Byron txs and post-Byron bodies sliced out of the corpus (byte level)
    let mut byron_txs: Vec<Vec<u8>> = vec![];
    let mut bodies: Vec<(&'static str, Vec<u8>)> = vec![];
    for (era, t) in &txs {
        let Some(ch) = fx::children(t, 0) else { continue };
        let Some(s0) = ch.first() else { continue };
        if *era == "byron" { byron_txs.push(t[s0.0..s0.1].to_vec()); } else if s0.1 - s0.0 < 6000 { bodies.push((era, t[s0.0..s0.1].to_vec())); }
    }
    byron_txs.sort(); byron_txs.dedup();
    if !g.thorough() { byron_txs.truncate(6); bodies.truncate(30); }
    for t in &byron_txs { g.case(vec![format!("byrontx {}", hex(t))]); }
    for (e, b) in &bodies { g.case(vec![format!("body {} {}", e, hex(b))]); }
    for (era, t) in &txs { g.case(tx_ops(era, t)); }
    // stand-alone datums / native scripts sliced out of the corpus transactions (byte level)
    let mut datums: Vec<Vec<u8>> = vec![];
    let mut scripts: Vec<Vec<u8>> = vec![];
    for (era, t) in &txs {
        if *era == "byron" { continue; }
        let Some(ch) = fx::children(t, 0) else { continue };
        if ch.len() != 4 { continue; }
        for (key, dst) in [(4u64, &mut datums), (1u64, &mut scripts)] {
            if let Some(v) = map_value(t, ch[1].0, key) {
                if let Some(items) = set_items(t, v.0) { for s in items { if s.1 - s.0 < 4000 { dst.push(t[s.0..s.1].to_vec()); } } }
            }
        }
    }
    datums.sort(); datums.dedup(); scripts.sort(); scripts.dedup();
    if !g.thorough() { datums.truncate(40); scripts.truncate(40); }
    for d in &datums { g.case(vec![format!("datum {}", hex(d))]); }
    for d in &scripts { g.case(vec![format!("script {}", hex(d))]); }
    // structural mutants pallas still decodes
    let mut rng = g.rng.fork();
    // (0) systematic: EVERY single-site def<->indef / head-width / chunking mutant of stand-alone headers
    //     (all eras incl. epoch boundary), driven through every matching (tag, subtag) entry point
    let per_tag = if g.thorough() { 8 } else { 2 };
    let mut seen_tag = std::collections::BTreeMap::<u64, usize>::new();
    let mut sys_headers: Vec<&(u64, Vec<u8>)> = vec![];
    let mut uniq = std::collections::BTreeSet::<&Vec<u8>>::new();
    for th in &headers {
        if !uniq.insert(&th.1) { continue; }
        let c = seen_tag.entry(th.0).or_insert(0);
        if *c < per_tag || th.0 <= 1 && *c < per_tag + 2 { *c += 1; sys_headers.push(th); }
    }
    for (t, h) in sys_headers {
        let combos = hdr_combos(*t);
        let (vt, st) = combos[0];
        for (kind, name) in SYS_KINDS {
            for m in cst::single_site_mutants(h, kind, 100_000, &mut rng) {
                if MultiEraHeader::decode(vt, st, &m).is_ok() {
                    let mut ops = vec![format!("note {name}")];
                    let n = if *t <= 1 { combos.len() } else { 2 };
                    ops.extend(combos.iter().take(n).map(|c| hdr_op(*c, &m)));
                    g.case(ops);
                }
            }
        }
    }
    // (0b) stand-alone Byron txs (attributes map is the LAST item) and post-Byron bodies
    for t in &byron_txs {
        for (kind, name) in SYS_KINDS {
            for m in cst::single_site_mutants(t, kind, if g.thorough() { 100_000 } else { 24 }, &mut rng) {
                if minicbor::decode::<KeepRaw<byron::Tx>>(&m).is_ok() { g.case(vec![format!("note {name}"), format!("byrontx {}", hex(&m))]); }
            }
        }
    }
    for (e, b) in &bodies {
        for (kind, name) in SYS_KINDS {
            for m in cst::single_site_mutants(b, kind, if g.thorough() { 40 } else { 6 }, &mut rng) {
                if body_ok(e, &m) { g.case(vec![format!("note {name}"), format!("body {} {}", e, hex(&m))]); }
            }
        }
    }
    // (0c) whole transactions and small blocks: evenly spread single sites incl. the last one
    let tx_lim = if g.thorough() { 40 } else { 6 };
    let mut n_tx = 0;
    for (era, t) in &txs {
        if t.len() > (if g.thorough() { 20_000 } else { 3_000 }) { continue; }
        n_tx += 1;
        if !g.thorough() && n_tx > 60 { break; }
        let e = era_of(era).unwrap();
        for (kind, name) in SYS_KINDS {
            for m in cst::single_site_mutants(t, kind, tx_lim, &mut rng) {
                if MultiEraTx::decode_for_era(e, &m).is_ok() {
                    let mut ops = vec![format!("note {name}")];
                    ops.extend(tx_ops(era, &m));
                    g.case(ops);
                }
            }
        }
    }
    let mut n_blk = 0;
    for b in &blocks {
        if b.len() > (if g.thorough() { 20_000 } else { 5_000 }) { continue; }
        n_blk += 1;
        if !g.thorough() && n_blk > 10 { break; }
        for (kind, name) in SYS_KINDS {
            for m in cst::single_site_mutants(b, kind, if g.thorough() { 60 } else { 12 }, &mut rng) {
                if MultiEraBlock::decode(&m).is_ok() { g.case(vec![format!("note {name}"), format!("block {}", hex(&m))]); }
            }
        }
    }
    // (a) systematic: every single-site mutant (first sites) of every stand-alone datum / script
    let site_lim = if g.thorough() { 64 } else { 8 };
    for (kind, name) in SYS_KINDS {
        for d in &datums {
            for m in cst::single_site_mutants(d, kind, site_lim, &mut rng) {
                if minicbor::decode::<KeepRaw<PlutusData>>(&m).is_ok() { g.case(vec![format!("note {name}"), format!("datum {}", hex(&m))]); }
            }
        }
        for d in &scripts {
            for m in cst::single_site_mutants(d, kind, site_lim, &mut rng) {
                if minicbor::decode::<KeepRaw<NativeScript>>(&m).is_ok() { g.case(vec![format!("note {name}"), format!("script {}", hex(&m))]); }
            }
        }
    }
    // (b) systematic: inline datums — splice pool datums (and their single-site to-indef / widen-head
    //     mutants) into the first `#6.24(bytes)` site of corpus transactions that have one
    let mut hosts: Vec<&(&'static str, Vec<u8>)> = txs.iter().filter(|(e, t)| (*e == "babbage" || *e == "conway") && t.len() < 6000 && cst::wrap_sites(t) > 0).collect();
    hosts.truncate(if g.thorough() { 12 } else { 3 });
    let mut pool: Vec<Vec<u8>> = datums.iter().filter(|d| d.len() < 400).take(if g.thorough() { 40 } else { 10 }).cloned().collect();
    pool.extend(datums.iter().filter(|d| d.len() < 600 && d.windows(2).any(|w| w == [0xd8, 0x66])).take(6).cloned());
    for (era, host) in hosts {
        let e = era_of(era).unwrap();
        for d in &pool {
            let mut variants = vec![d.clone()];
            variants.extend(cst::single_site_mutants(d, 0, 4, &mut rng));
            variants.extend(cst::single_site_mutants(d, 2, 2, &mut rng));
            for v in variants {
                if let Some(t) = cst::splice_wrapped(host, 0, &v) {
                    if MultiEraTx::decode_for_era(e, &t).is_ok() {
                        let mut ops = vec!["note inline-splice".to_string()];
                        ops.extend(tx_ops(era, &t));
                        g.case(ops);
                    }
                }
            }
        }
    }
    let mut round = 0;
    while made < budget && round < 50 {
        round += 1;
        for (era, t) in &txs {
            if made >= budget { break; }
            if t.len() > 20_000 { continue; }
            let e = era_of(era).unwrap();
            for (m, kinds) in mutants(&mut rng, t, per, per * 6, |m| MultiEraTx::decode_for_era(e, m).is_ok()) {
                let mut ops = vec![format!("note {}", kinds.join("+"))];
                ops.extend(tx_ops(era, &m));
                g.case(ops); made += 1;
            }
        }
        for d in &datums {
            if made >= budget { break; }
            for (m, kinds) in mutants(&mut rng, d, 1, 4, |m| minicbor::decode::<KeepRaw<PlutusData>>(m).is_ok()) {
                g.case(vec![format!("note {}", kinds.join("+")), format!("datum {}", hex(&m))]); made += 1;
            }
        }
        for d in &scripts {
            if made >= budget { break; }
            for (m, kinds) in mutants(&mut rng, d, 1, 4, |m| minicbor::decode::<KeepRaw<NativeScript>>(m).is_ok()) {
                g.case(vec![format!("note {}", kinds.join("+")), format!("script {}", hex(&m))]); made += 1;
            }
        }
        for (tag, h) in &headers {
            if made >= budget { break; }
            let (vt, st) = header_variant(*tag);
            for (m, kinds) in mutants(&mut rng, h, 1, 6, |m| MultiEraHeader::decode(vt, st, m).is_ok()) {
                g.case(vec![format!("note {}", kinds.join("+")), format!("header {} {}", tag, hex(&m))]); made += 1;
            }
        }
        for b in &blocks {
            if made >= budget { break; }
            if b.len() > 12_000 { continue; }
            for (m, kinds) in mutants(&mut rng, b, 1, 6, |m| MultiEraBlock::decode(m).is_ok()) {
                g.case(vec![format!("note {}", kinds.join("+")), format!("block {}", hex(&m))]); made += 1;
            }
        }
    }
}

// ---------------------------------------------------------------- byte-offset oracle
fn h256(b: &[u8]) -> Vec<u8> { Hasher::<256>::hash(b).to_vec() }

fn map_value(bytes: &[u8], map_at: usize, key: u64) -> Option<(usize, usize)> {
    let ch = fx::children(bytes, map_at)?;
    for kv in ch.chunks(2) { if kv.len() == 2 && fx::uint_at(bytes, kv[0].0) == Some(key) { return Some(kv[1]); } }
    None
}
/// children of an array that may be wrapped in tag 258
fn set_items(bytes: &[u8], at: usize) -> Option<Vec<(usize, usize)>> {
    let mut d = Decoder::new(bytes);
    d.set_position(at);
    if d.datatype().ok()? == Type::Tag { d.tag().ok()?; }
    fx::children(bytes, d.position())
}
fn hashes_of_key(tx: &[u8], wits_at: usize, key: u64, f: impl Fn(&[u8]) -> Vec<u8>) -> Vec<Vec<u8>> {
    (|| { let v = map_value(tx, wits_at, key)?; Some(set_items(tx, v.0)?.iter().map(|s| f(&tx[s.0..s.1])).collect()) })().unwrap_or_default()
}
fn inline_hashes(tx: &[u8], body_at: usize) -> Vec<Vec<u8>> {
    let mut res = vec![];
    let Some(outs) = map_value(tx, body_at, 1).and_then(|v| fx::children(tx, v.0)) else { return res };
    for o in outs {
        let mut d = Decoder::new(tx);
        d.set_position(o.0);
        if !matches!(d.datatype(), Ok(Type::Map) | Ok(Type::MapIndef)) { continue; }
        let Some(dv) = map_value(tx, o.0, 2) else { continue };
        let Some(parts) = fx::children(tx, dv.0) else { continue };
        if parts.len() != 2 || fx::uint_at(tx, parts[0].0) != Some(1) { continue; }
        let mut d = Decoder::new(tx);
        d.set_position(parts[1].0);
        if d.tag().is_err() { continue; }
        // definite or chunked byte string: concatenate
        let mut payload = vec![];
        match d.bytes_iter() { Ok(it) => for c in it { if let Ok(c) = c { payload.extend_from_slice(c); } }, Err(_) => continue }
        if let Some(e) = fx::item_end(&payload, 0) { res.push(h256(&payload[..e])); }
    }
    res
}
fn show(hs: &[Vec<u8>]) -> String { format!("[{}]", hs.iter().map(|h| hex(h)).collect::<Vec<_>>().join(" ")) }

pub fn run_case(case: &Case, out: &mut Out) {
    let mut bytes: Vec<u8> = vec![];
    let mut era = Era::Conway;
    let mut loaded = false;
    for op in &case.ops {
        match op[0].as_str() {
            "tx" => {
                let (Some(e), Some(b)) = (op.get(1).and_then(|s| era_of(s)), op.get(2).and_then(|s| unhex(s))) else { out.reply("bad-op".into()); continue };
                era = e; bytes = b;
                let bb = bytes.clone();
                let r = guard(move || MultiEraTx::decode_for_era(era, &bb).ok().map(|tx| {
                    let any = MultiEraTx::decode(&bb).ok().map(|t| t.hash().to_vec());
                    (tx.hash().to_vec(), any)
                }));
                match r {
                    Some(Some((h, any))) => {
                        loaded = true;
                        if let Some(ch) = fx::children(&bytes, 0) {
                            if let Some(s) = ch.first() {
                                if h256(&bytes[s.0..s.1]) != h { out.viol("tx-id-not-hash-of-wire-body", format!("hash() {} but blake2b256 of the bytes of element 0 is {}", hex(&h), hex(&h256(&bytes[s.0..s.1])))); }
                            }
                        }
                        if let Some(a) = any { if a != h { out.viol("tx-id-decode-vs-decode-for-era", format!("decode().hash() {} decode_for_era().hash() {}", hex(&a), hex(&h))); } }
                        out.nontrivial();
                        out.ok(format!("id={}", hex(&h)));
                    }
                    Some(None) => { loaded = false; out.err("decode") }
                    None => { loaded = false; out.panic() }
                }
            }
            "datums" | "scripts" | "inline" => {
                if !loaded { out.err("notx"); continue; }
                if era == Era::Byron { out.ok("[]"); continue; }
                let bb = bytes.clone();
                let which = op[0].clone();
                let r = guard(move || {
                    let tx = MultiEraTx::decode_for_era(era, &bb).unwrap();
                    match which.as_str() {
                        "datums" => tx.plutus_data().iter().map(|d| d.original_hash().to_vec()).collect::<Vec<_>>(),
                        "scripts" => tx.native_scripts().iter().map(|s| s.original_hash().to_vec()).collect(),
                        _ => tx.outputs().iter().filter_map(|o| match o.datum() { Some(DatumOption::Data(d)) => Some(d.original_hash().to_vec()), _ => None }).collect(),
                    }
                });
                match r {
                    Some(hs) => {
                        if let Some(ch) = fx::children(&bytes, 0) {
                            if ch.len() == 4 {
                                let want = match op[0].as_str() {
                                    "datums" => hashes_of_key(&bytes, ch[1].0, 4, |s| h256(s)),
                                    "scripts" => hashes_of_key(&bytes, ch[1].0, 1, |s| Hasher::<224>::hash_tagged(s, 0).to_vec()),
                                    _ => inline_hashes(&bytes, ch[0].0),
                                };
                                if want != hs { out.viol(format!("{}-hash-not-over-wire-bytes", op[0]), format!("reported {} expected {}", show(&hs), show(&want))); }
                            }
                        }
                        if !hs.is_empty() { out.cov(format!("{}-present", op[0])); }
                        out.ok(show(&hs));
                    }
                    None => out.panic(),
                }
            }
            "block" => {
                let Some(b) = op.get(1).and_then(|s| unhex(s)) else { out.reply("bad-op".into()); continue };
                let bb = b.clone();
                let r = guard(move || MultiEraBlock::decode(&bb).ok().map(|blk| (blk.hash().to_vec(), blk.header().hash().to_vec())));
                match r {
                    Some(Some((h, hh))) => {
                        if let Some(rb) = fx::split_block(&b) {
                            let span = &b[rb.header.0..rb.header.1];
                            let want = match rb.tag { 0 => { let mut p = vec![0x82, 0x00]; p.extend_from_slice(span); h256(&p) } 1 => { let mut p = vec![0x82, 0x01]; p.extend_from_slice(span); h256(&p) } _ => h256(span) };
                            if want != h { out.viol("block-hash-not-over-wire-header", format!("tag {} hash() {} expected {}", rb.tag, hex(&h), hex(&want))); }
                            out.cov(format!("block-tag-{}", rb.tag));
                        }
                        if h != hh { out.viol("block-hash-vs-header-hash", format!("{} vs {}", hex(&h), hex(&hh))); }
                        out.nontrivial();
                        out.ok(format!("hash={}", hex(&h)));
                    }
                    Some(None) => out.err("decode"),
                    None => out.panic(),
                }
            }
            "header" => {
                let (Some(t), Some(b)) = (op.get(1).and_then(|s| s.parse::<u64>().ok()), op.get(2).and_then(|s| unhex(s))) else { out.reply("bad-op".into()); continue };
                let (vt, st) = header_variant(t);
                let bb = b.clone();
                let r = guard(move || MultiEraHeader::decode(vt, st, &bb).ok().map(|h| (h.hash().to_vec(), h.cbor().to_vec())));
                match r {
                    Some(Some((h, raw))) => {
                        let end = fx::item_end(&b, 0).unwrap_or(b.len());
                        let span = &b[..end];
                        let want = match t { 0 => { let mut p = vec![0x82, 0x00]; p.extend_from_slice(span); h256(&p) } 1 => { let mut p = vec![0x82, 0x01]; p.extend_from_slice(span); h256(&p) } _ => h256(span) };
                        if want != h { out.viol("header-hash-not-over-wire-bytes", format!("wrapper tag {} hash() {} expected {}", t, hex(&h), hex(&want))); }
                        if raw != span { out.viol("header-raw-cbor", "cbor() differs from the wire bytes of the header".to_string()); }
                        out.cov(format!("header-tag-{}", t));
                        out.nontrivial();
                        out.ok(format!("hash={}", hex(&h)));
                    }
                    Some(None) => out.err("decode"),
                    None => out.panic(),
                }
            }
            "hdr" => {
                let (Some(t), Some(sub), Some(b)) = (op.get(1).and_then(|s| s.parse::<u8>().ok()), op.get(2), op.get(3).and_then(|s| unhex(s))) else { out.reply("bad-op".into()); continue };
                let st: Option<u8> = if sub == "-" { None } else { sub.parse().ok() };
                let bb = b.clone();
                let r = guard(move || MultiEraHeader::decode(t, st, &bb).ok().map(|h| (h.hash().to_vec(), h.cbor().to_vec())));
                match r {
                    Some(Some((h, raw))) => {
                        let end = fx::item_end(&b, 0).unwrap_or(b.len());
                        let span = &b[..end];
                        let want = if t == 0 { let mut p = vec![0x82, if st == Some(0) { 0x00 } else { 0x01 }]; p.extend_from_slice(span); h256(&p) } else { h256(span) };
                        if want != h { out.viol("header-hash-not-over-wire-bytes", format!("decode({t}, {st:?}) hash() {} expected {}", hex(&h), hex(&want))); }
                        if raw != span { out.viol("header-raw-cbor", format!("decode({t}, {st:?}): cbor() has {} bytes, the header item on the wire {}", raw.len(), span.len())); }
                        out.cov(format!("hdr-entry-{}-{}", t, sub));
                        out.nontrivial();
                        out.ok(format!("hash={}", hex(&h)));
                    }
                    Some(None) => out.err("decode"),
                    None => out.panic(),
                }
            }
            "byrontx" | "body" => {
                let is_b = op[0] == "byrontx";
                let era_s = if is_b { "byron".to_string() } else { op.get(1).cloned().unwrap_or_default() };
                let Some(b) = op.get(if is_b { 1 } else { 2 }).and_then(|s| unhex(s)) else { out.reply("bad-op".into()); continue };
                let bb = b.clone();
                let es = era_s.clone();
                let r = guard(move || match es.as_str() {
                    "byron" => minicbor::decode::<KeepRaw<byron::Tx>>(&bb).ok().map(|d| (d.original_hash().to_vec(), d.raw_cbor().len())),
                    "alonzo" => minicbor::decode::<KeepRaw<alonzo::TransactionBody>>(&bb).ok().map(|d| (d.original_hash().to_vec(), d.raw_cbor().len())),
                    "babbage" => minicbor::decode::<KeepRaw<babbage::TransactionBody>>(&bb).ok().map(|d| (d.original_hash().to_vec(), d.raw_cbor().len())),
                    "conway" => minicbor::decode::<KeepRaw<conway::TransactionBody>>(&bb).ok().map(|d| (d.original_hash().to_vec(), d.raw_cbor().len())),
                    _ => None,
                });
                match r {
                    Some(Some((h, rawlen))) => {
                        let end = fx::item_end(&b, 0).unwrap_or(b.len());
                        if h256(&b[..end]) != h || rawlen != end {
                            out.viol(format!("{}-original-hash-not-over-wire-bytes", op[0]), format!("original_hash() {} over {} bytes; the item on the wire has {} bytes, blake2b256 {}", hex(&h), rawlen, end, hex(&h256(&b[..end]))));
                        }
                        out.cov(format!("standalone-{}-{}", op[0], era_s));
                        out.nontrivial();
                        out.ok(format!("hash={}", hex(&h)));
                    }
                    Some(None) => out.err("decode"),
                    None => out.panic(),
                }
            }
            "datum" | "script" => {
                let Some(b) = op.get(1).and_then(|s| unhex(s)) else { out.reply("bad-op".into()); continue };
                let bb = b.clone();
                let is_datum = op[0] == "datum";
                let r = guard(move || if is_datum { minicbor::decode::<KeepRaw<PlutusData>>(&bb).ok().map(|d| d.original_hash().to_vec()) }
                                      else { minicbor::decode::<KeepRaw<NativeScript>>(&bb).ok().map(|d| d.original_hash().to_vec()) });
                match r {
                    Some(Some(h)) => {
                        let end = fx::item_end(&b, 0).unwrap_or(b.len());
                        let want = if is_datum { h256(&b[..end]) } else { Hasher::<224>::hash_tagged(&b[..end], 0).to_vec() };
                        if want != h { out.viol(format!("{}-original-hash-not-over-wire-bytes", op[0]), format!("original_hash() {} expected {}", hex(&h), hex(&want))); }
                        out.cov(format!("standalone-{}", op[0]));
                        out.nontrivial();
                        out.ok(format!("hash={}", hex(&h)));
                    }
                    Some(None) => out.err("decode"),
                    None => out.panic(),
                }
            }
            "note" => {
                for k in op.get(1).map(|s| s.split('+').collect::<Vec<_>>()).unwrap_or_default() { out.cov(format!("mutant-{k}")); }
                out.cov("mutant");
                out.ok("");
            }
            _ => out.reply("bad-op".into()),
        }
    }
}
