//! stream `idhash` — C05: tx id / block hash / header hash / datum hash / native-script hash as
//! reported by pallas, on every corpus tx / block / header and on structural CBOR mutants of them
//! that pallas still decodes. The Lean driver is the independent oracle of the diff (it slices the
//! spans with its own strict parser and hashes with its own BLAKE2b); `out.viol` is a second,
//! byte-offset oracle (minicbor `skip` + pallas-crypto Hasher) so a failure comes with a replay.
use crate::fw::*;
use pallas_codec::minicbor::{data::Type, Decoder};
use pallas_crypto::hash::Hasher;
use pallas_codec::{minicbor, utils::KeepRaw};
use pallas_primitives::alonzo::{NativeScript, PlutusData};
use pallas_primitives::conway::DatumOption;
use pallas_traverse::{Era, MultiEraBlock, MultiEraHeader, MultiEraTx, OriginalHash};

#[path = "../fixtures/w12.rs"]
mod fx;
#[path = "../fixtures/w12_cst.rs"]
mod cst;

pub const NAME: &str = "idhash";

fn era_of(k: &str) -> Option<Era> {
    Some(match k { "byron" => Era::Byron, "alonzo" => Era::Alonzo, "babbage" => Era::Babbage, "conway" => Era::Conway, _ => return None })
}
fn tx_ops(era: &str, tx: &[u8]) -> Vec<String> {
    vec![format!("tx {} {}", era, hex(tx)), "datums".into(), "scripts".into(), "inline".into()]
}
fn header_variant(wrapper_tag: u64) -> (u8, Option<u8>) {
    match wrapper_tag { 0 => (0, Some(0)), 1 => (0, Some(1)), t => ((t - 1) as u8, None) }
}

/// up to `tries` attempts to find a mutant accepted by `accept`
fn mutants<F: Fn(&[u8]) -> bool>(rng: &mut Rng, bytes: &[u8], want: usize, tries: usize, accept: F) -> Vec<(Vec<u8>, Vec<&'static str>)> {
    let mut res = vec![];
    for _ in 0..tries {
        if res.len() >= want { break; }
        if let Some((m, kinds)) = cst::mutant(bytes, rng) { if accept(&m) { res.push((m, kinds)); } }
    }
    res
}

pub fn generate(g: &mut Gen) {
    let per = if g.thorough() { 12 } else { 2 };
    let budget = g.cases; // number of mutant cases wanted overall (corpus originals always run)
    let mut made = 0usize;
    let mut txs: Vec<(&'static str, Vec<u8>)> = vec![];
    // corpus transactions
    for (name, bytes) in fx::hex_files("tx") {
        let era = match fx::era_kind_of_name(&name) {
            Some(e) => e,
            None => {
                let mut f = None;
                for (e, k) in [(Era::Conway, "conway"), (Era::Babbage, "babbage"), (Era::Alonzo, "alonzo"), (Era::Byron, "byron")] {
                    if MultiEraTx::decode_for_era(e, &bytes).is_ok() { f = Some(k); break; }
                }
                match f { Some(k) => k, None => continue }
            }
        };
        txs.push((era, bytes));
    }
    // corpus blocks: the block itself, its header, its transactions
    let mut blocks: Vec<Vec<u8>> = vec![];
    for (_n, b) in fx::hex_files("block") {
        blocks.push(b);
    }
    if let Some(e) = fx::small_ebb() { blocks.push(e); }
    // immutable-db chunks: concatenated blocks
    for b in fx::chunk_blocks(if g.thorough() { 8 } else { 400 }) { blocks.push(b); }
    let mut headers: Vec<(u64, Vec<u8>)> = vec![];
    for (n, b) in fx::hex_files("header") {
        headers.push((if n.starts_with("byron") { 1 } else { 5 }, b));
    }
    for b in &blocks {
        g.case(vec![format!("block {}", hex(b))]);
        let Some(rb) = fx::split_block(b) else { continue };
        headers.push((rb.tag, b[rb.header.0..rb.header.1].to_vec()));
        let era = fx::era_kind_of_tag(rb.tag);
        let lim = if g.thorough() { 6 } else { 2 };
        for s in rb.byron_payloads.iter().take(lim) { txs.push(("byron", b[s.0..s.1].to_vec())); }
        for i in 0..rb.bodies.len().min(lim) { if let Some(t) = fx::standalone_tx(b, &rb, i, true) { txs.push((era, t)); } }
    }
    for (t, h) in &headers { g.case(vec![format!("header {} {}", t, hex(h))]); }
    for (era, t) in &txs { g.case(tx_ops(era, t)); }
    // stand-alone datums / native scripts sliced out of the corpus transactions (byte level)
    let mut datums: Vec<Vec<u8>> = vec![];
    let mut scripts: Vec<Vec<u8>> = vec![];
    for (era, t) in &txs {
        if *era == "byron" { continue; }
        let Some(ch) = fx::children(t, 0) else { continue };
        if ch.len() != 4 { continue; }
        for (key, dst) in [(4u64, &mut datums), (1u64, &mut scripts)] {
            if let Some(v) = map_value(t, ch[1].0, key) {
                if let Some(items) = set_items(t, v.0) { for s in items { if s.1 - s.0 < 4000 { dst.push(t[s.0..s.1].to_vec()); } } }
            }
        }
    }
    datums.sort(); datums.dedup(); scripts.sort(); scripts.dedup();
    if !g.thorough() { datums.truncate(40); scripts.truncate(40); }
    for d in &datums { g.case(vec![format!("datum {}", hex(d))]); }
    for d in &scripts { g.case(vec![format!("script {}", hex(d))]); }
    // structural mutants pallas still decodes
    let mut rng = g.rng.fork();
    // (a) systematic: every single-site mutant (first sites) of every stand-alone datum / script
    let site_lim = if g.thorough() { 64 } else { 8 };
    for (kind, name) in [(0usize, "to-indef"), (1, "to-def"), (2, "widen-head"), (4, "chunk-string")] {
        for d in &datums {
            for m in cst::single_site_mutants(d, kind, site_lim, &mut rng) {
                if minicbor::decode::<KeepRaw<PlutusData>>(&m).is_ok() { g.case(vec![format!("note {name}"), format!("datum {}", hex(&m))]); }
            }
        }
        for d in &scripts {
            for m in cst::single_site_mutants(d, kind, site_lim, &mut rng) {
                if minicbor::decode::<KeepRaw<NativeScript>>(&m).is_ok() { g.case(vec![format!("note {name}"), format!("script {}", hex(&m))]); }
            }
        }
    }
    // (b) systematic: inline datums — splice pool datums (and their single-site to-indef / widen-head
    //     mutants) into the first `#6.24(bytes)` site of corpus transactions that have one
    let mut hosts: Vec<&(&'static str, Vec<u8>)> = txs.iter().filter(|(e, t)| (*e == "babbage" || *e == "conway") && t.len() < 6000 && cst::wrap_sites(t) > 0).collect();
    hosts.truncate(if g.thorough() { 12 } else { 3 });
    let mut pool: Vec<Vec<u8>> = datums.iter().filter(|d| d.len() < 400).take(if g.thorough() { 40 } else { 10 }).cloned().collect();
    pool.extend(datums.iter().filter(|d| d.len() < 600 && d.windows(2).any(|w| w == [0xd8, 0x66])).take(6).cloned());
    for (era, host) in hosts {
        let e = era_of(era).unwrap();
        for d in &pool {
            let mut variants = vec![d.clone()];
            variants.extend(cst::single_site_mutants(d, 0, 4, &mut rng));
            variants.extend(cst::single_site_mutants(d, 2, 2, &mut rng));
            for v in variants {
                if let Some(t) = cst::splice_wrapped(host, 0, &v) {
                    if MultiEraTx::decode_for_era(e, &t).is_ok() {
                        let mut ops = vec!["note inline-splice".to_string()];
                        ops.extend(tx_ops(era, &t));
                        g.case(ops);
                    }
                }
            }
        }
    }
    let mut round = 0;
    while made < budget && round < 50 {
        round += 1;
        for (era, t) in &txs {
            if made >= budget { break; }
            if t.len() > 20_000 { continue; }
            let e = era_of(era).unwrap();
            for (m, kinds) in mutants(&mut rng, t, per, per * 6, |m| MultiEraTx::decode_for_era(e, m).is_ok()) {
                let mut ops = vec![format!("note {}", kinds.join("+"))];
                ops.extend(tx_ops(era, &m));
                g.case(ops); made += 1;
            }
        }
        for d in &datums {
            if made >= budget { break; }
            for (m, kinds) in mutants(&mut rng, d, 1, 4, |m| minicbor::decode::<KeepRaw<PlutusData>>(m).is_ok()) {
                g.case(vec![format!("note {}", kinds.join("+")), format!("datum {}", hex(&m))]); made += 1;
            }
        }
        for d in &scripts {
            if made >= budget { break; }
            for (m, kinds) in mutants(&mut rng, d, 1, 4, |m| minicbor::decode::<KeepRaw<NativeScript>>(m).is_ok()) {
                g.case(vec![format!("note {}", kinds.join("+")), format!("script {}", hex(&m))]); made += 1;
            }
        }
        for (tag, h) in &headers {
            if made >= budget { break; }
            let (vt, st) = header_variant(*tag);
            for (m, kinds) in mutants(&mut rng, h, 1, 6, |m| MultiEraHeader::decode(vt, st, m).is_ok()) {
                g.case(vec![format!("note {}", kinds.join("+")), format!("header {} {}", tag, hex(&m))]); made += 1;
            }
        }
        for b in &blocks {
            if made >= budget { break; }
            if b.len() > 12_000 { continue; }
            for (m, kinds) in mutants(&mut rng, b, 1, 6, |m| MultiEraBlock::decode(m).is_ok()) {
                g.case(vec![format!("note {}", kinds.join("+")), format!("block {}", hex(&m))]); made += 1;
            }
        }
    }
}

// ---------------------------------------------------------------- byte-offset oracle
fn h256(b: &[u8]) -> Vec<u8> { Hasher::<256>::hash(b).to_vec() }

fn map_value(bytes: &[u8], map_at: usize, key: u64) -> Option<(usize, usize)> {
    let ch = fx::children(bytes, map_at)?;
    for kv in ch.chunks(2) { if kv.len() == 2 && fx::uint_at(bytes, kv[0].0) == Some(key) { return Some(kv[1]); } }
    None
}
/// children of an array that may be wrapped in tag 258
fn set_items(bytes: &[u8], at: usize) -> Option<Vec<(usize, usize)>> {
    let mut d = Decoder::new(bytes);
    d.set_position(at);
    if d.datatype().ok()? == Type::Tag { d.tag().ok()?; }
    fx::children(bytes, d.position())
}
fn hashes_of_key(tx: &[u8], wits_at: usize, key: u64, f: impl Fn(&[u8]) -> Vec<u8>) -> Vec<Vec<u8>> {
    (|| { let v = map_value(tx, wits_at, key)?; Some(set_items(tx, v.0)?.iter().map(|s| f(&tx[s.0..s.1])).collect()) })().unwrap_or_default()
}
fn inline_hashes(tx: &[u8], body_at: usize) -> Vec<Vec<u8>> {
    let mut res = vec![];
    let Some(outs) = map_value(tx, body_at, 1).and_then(|v| fx::children(tx, v.0)) else { return res };
    for o in outs {
        let mut d = Decoder::new(tx);
        d.set_position(o.0);
        if !matches!(d.datatype(), Ok(Type::Map) | Ok(Type::MapIndef)) { continue; }
        let Some(dv) = map_value(tx, o.0, 2) else { continue };
        let Some(parts) = fx::children(tx, dv.0) else { continue };
        if parts.len() != 2 || fx::uint_at(tx, parts[0].0) != Some(1) { continue; }
        let mut d = Decoder::new(tx);
        d.set_position(parts[1].0);
        if d.tag().is_err() { continue; }
        // definite or chunked byte string: concatenate
        let mut payload = vec![];
        match d.bytes_iter() { Ok(it) => for c in it { if let Ok(c) = c { payload.extend_from_slice(c); } }, Err(_) => continue }
        if let Some(e) = fx::item_end(&payload, 0) { res.push(h256(&payload[..e])); }
    }
    res
}
fn show(hs: &[Vec<u8>]) -> String { format!("[{}]", hs.iter().map(|h| hex(h)).collect::<Vec<_>>().join(" ")) }

pub fn run_case(case: &Case, out: &mut Out) {
    let mut bytes: Vec<u8> = vec![];
    let mut era = Era::Conway;
    let mut loaded = false;
    for op in &case.ops {
        match op[0].as_str() {
            "tx" => {
                let (Some(e), Some(b)) = (op.get(1).and_then(|s| era_of(s)), op.get(2).and_then(|s| unhex(s))) else { out.reply("bad-op".into()); continue };
                era = e; bytes = b;
                let bb = bytes.clone();
                let r = guard(move || MultiEraTx::decode_for_era(era, &bb).ok().map(|tx| {
                    let any = MultiEraTx::decode(&bb).ok().map(|t| t.hash().to_vec());
                    (tx.hash().to_vec(), any)
                }));
                match r {
                    Some(Some((h, any))) => {
                        loaded = true;
                        if let Some(ch) = fx::children(&bytes, 0) {
                            if let Some(s) = ch.first() {
                                if h256(&bytes[s.0..s.1]) != h { out.viol("tx-id-not-hash-of-wire-body", format!("hash() {} but blake2b256 of the bytes of element 0 is {}", hex(&h), hex(&h256(&bytes[s.0..s.1])))); }
                            }
                        }
                        if let Some(a) = any { if a != h { out.viol("tx-id-decode-vs-decode-for-era", format!("decode().hash() {} decode_for_era().hash() {}", hex(&a), hex(&h))); } }
                        out.nontrivial();
                        out.ok(format!("id={}", hex(&h)));
                    }
                    Some(None) => { loaded = false; out.err("decode") }
                    None => { loaded = false; out.panic() }
                }
            }
            "datums" | "scripts" | "inline" => {
                if !loaded { out.err("notx"); continue; }
                if era == Era::Byron { out.ok("[]"); continue; }
                let bb = bytes.clone();
                let which = op[0].clone();
                let r = guard(move || {
                    let tx = MultiEraTx::decode_for_era(era, &bb).unwrap();
                    match which.as_str() {
                        "datums" => tx.plutus_data().iter().map(|d| d.original_hash().to_vec()).collect::<Vec<_>>(),
                        "scripts" => tx.native_scripts().iter().map(|s| s.original_hash().to_vec()).collect(),
                        _ => tx.outputs().iter().filter_map(|o| match o.datum() { Some(DatumOption::Data(d)) => Some(d.original_hash().to_vec()), _ => None }).collect(),
                    }
                });
                match r {
                    Some(hs) => {
                        if let Some(ch) = fx::children(&bytes, 0) {
                            if ch.len() == 4 {
                                let want = match op[0].as_str() {
                                    "datums" => hashes_of_key(&bytes, ch[1].0, 4, |s| h256(s)),
                                    "scripts" => hashes_of_key(&bytes, ch[1].0, 1, |s| Hasher::<224>::hash_tagged(s, 0).to_vec()),
                                    _ => inline_hashes(&bytes, ch[0].0),
                                };
                                if want != hs { out.viol(format!("{}-hash-not-over-wire-bytes", op[0]), format!("reported {} expected {}", show(&hs), show(&want))); }
                            }
                        }
                        if !hs.is_empty() { out.cov(format!("{}-present", op[0])); }
                        out.ok(show(&hs));
                    }
                    None => out.panic(),
                }
            }
            "block" => {
                let Some(b) = op.get(1).and_then(|s| unhex(s)) else { out.reply("bad-op".into()); continue };
                let bb = b.clone();
                let r = guard(move || MultiEraBlock::decode(&bb).ok().map(|blk| (blk.hash().to_vec(), blk.header().hash().to_vec())));
                match r {
                    Some(Some((h, hh))) => {
                        if let Some(rb) = fx::split_block(&b) {
                            let span = &b[rb.header.0..rb.header.1];
                            let want = match rb.tag { 0 => { let mut p = vec![0x82, 0x00]; p.extend_from_slice(span); h256(&p) } 1 => { let mut p = vec![0x82, 0x01]; p.extend_from_slice(span); h256(&p) } _ => h256(span) };
                            if want != h { out.viol("block-hash-not-over-wire-header", format!("tag {} hash() {} expected {}", rb.tag, hex(&h), hex(&want))); }
                            out.cov(format!("block-tag-{}", rb.tag));
                        }
                        if h != hh { out.viol("block-hash-vs-header-hash", format!("{} vs {}", hex(&h), hex(&hh))); }
                        out.nontrivial();
                        out.ok(format!("hash={}", hex(&h)));
                    }
                    Some(None) => out.err("decode"),
                    None => out.panic(),
                }
            }
            "header" => {
                let (Some(t), Some(b)) = (op.get(1).and_then(|s| s.parse::<u64>().ok()), op.get(2).and_then(|s| unhex(s))) else { out.reply("bad-op".into()); continue };
                let (vt, st) = header_variant(t);
                let bb = b.clone();
                let r = guard(move || MultiEraHeader::decode(vt, st, &bb).ok().map(|h| (h.hash().to_vec(), h.cbor().to_vec())));
                match r {
                    Some(Some((h, raw))) => {
                        let end = fx::item_end(&b, 0).unwrap_or(b.len());
                        let span = &b[..end];
                        let want = match t { 0 => { let mut p = vec![0x82, 0x00]; p.extend_from_slice(span); h256(&p) } 1 => { let mut p = vec![0x82, 0x01]; p.extend_from_slice(span); h256(&p) } _ => h256(span) };
                        if want != h { out.viol("header-hash-not-over-wire-bytes", format!("wrapper tag {} hash() {} expected {}", t, hex(&h), hex(&want))); }
                        if raw != span { out.viol("header-raw-cbor", "cbor() differs from the wire bytes of the header".to_string()); }
                        out.cov(format!("header-tag-{}", t));
                        out.nontrivial();
                        out.ok(format!("hash={}", hex(&h)));
                    }
                    Some(None) => out.err("decode"),
                    None => out.panic(),
                }
            }
            "datum" | "script" => {
                let Some(b) = op.get(1).and_then(|s| unhex(s)) else { out.reply("bad-op".into()); continue };
                let bb = b.clone();
                let is_datum = op[0] == "datum";
                let r = guard(move || if is_datum { minicbor::decode::<KeepRaw<PlutusData>>(&bb).ok().map(|d| d.original_hash().to_vec()) }
                                      else { minicbor::decode::<KeepRaw<NativeScript>>(&bb).ok().map(|d| d.original_hash().to_vec()) });
                match r {
                    Some(Some(h)) => {
                        let end = fx::item_end(&b, 0).unwrap_or(b.len());
                        let want = if is_datum { h256(&b[..end]) } else { Hasher::<224>::hash_tagged(&b[..end], 0).to_vec() };
                        if want != h { out.viol(format!("{}-original-hash-not-over-wire-bytes", op[0]), format!("original_hash() {} expected {}", hex(&h), hex(&want))); }
                        out.cov(format!("standalone-{}", op[0]));
                        out.nontrivial();
                        out.ok(format!("hash={}", hex(&h)));
                    }
                    Some(None) => out.err("decode"),
                    None => out.panic(),
                }
            }
            "note" => {
                for k in op.get(1).map(|s| s.split('+').collect::<Vec<_>>()).unwrap_or_default() { out.cov(format!("mutant-{k}")); }
                out.cov("mutant");
                out.ok("");
            }
            _ => out.reply("bad-op".into()),
        }
    }
}
