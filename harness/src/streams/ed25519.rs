//! stream `ed25519` — C11: pallas_crypto::key::ed25519 vs the Lean RFC 8032 model.
//! Oracle: ed25519-dalek (an implementation independent of cryptoxide, which pallas wraps) for
//! public keys, signatures (Ed25519 signing is deterministic) and verification verdicts, plus the
//! RFC 8032 §5.1.3 decoding rules evaluated directly on the key bytes and the bit-level reading of
//! the clamping check.
use crate::fw::*;
use ed25519_dalek::hazmat::{raw_sign, ExpandedSecretKey};
use ed25519_dalek::{Signer, Verifier};
use pallas_crypto::key::ed25519::{PublicKey, SecretKey, SecretKeyExtended, Signature};

pub const NAME: &str = "ed25519";

const L: [u8; 32] = [0xed, 0xd3, 0xf5, 0x5c, 0x1a, 0x63, 0x12, 0x58, 0xd6, 0x9c, 0xf7, 0xa2, 0xde, 0xf9, 0xde, 0x14,
    0, 0, 0, 0, 0, 0, 0, 0, 0, 0, 0, 0, 0, 0, 0, 0x10];

fn arr<const N: usize>(b: &[u8]) -> Option<[u8; N]> { b.try_into().ok() }

/// RFC 8032 §5.1.3 step 1: the 255-bit y must be below p = 2^255 - 19
fn noncanonical_y(pk: &[u8; 32]) -> bool {
    (pk[31] & 0x7f) == 0x7f && pk[1..31].iter().all(|b| *b == 0xff) && pk[0] >= 0xed
}
/// RFC 8032 §5.1.3 step 4: x = 0 (y = 1 or y = p - 1) with the sign bit set must be rejected
fn x_zero_with_sign(pk: &[u8; 32]) -> bool {
    let mut one = [0u8; 32]; one[0] = 1; one[31] = 0x80;
    let mut m1 = [0xffu8; 32]; m1[0] = 0xec;
    *pk == one || *pk == m1
}

fn add_l(s: &[u8]) -> Option<Vec<u8>> {
    let mut out = vec![0u8; 32];
    let mut carry = 0u16;
    for i in 0..32 { let v = s[i] as u16 + L[i] as u16 + carry; out[i] = v as u8; carry = v >> 8; }
    if carry == 0 { Some(out) } else { None }
}

/// the eight points of small order (canonical encodings), RFC 8032 / libsodium's blacklist
const TORSION: [&str; 8] = [
    "0100000000000000000000000000000000000000000000000000000000000000", // order 1
    "ecffffffffffffffffffffffffffffffffffffffffffffffffffffffffffff7f", // order 2
    "0000000000000000000000000000000000000000000000000000000000000000", // order 4
    "0000000000000000000000000000000000000000000000000000000000000080", // order 4
    "26e8958fc2b227b045c3f489f2ef98f0d5dfac05d3c63339b13802886d53fc05", // order 8
    "26e8958fc2b227b045c3f489f2ef98f0d5dfac05d3c63339b13802886d53fc85", // order 8
    "c7176a703d4dd84fba3c0b760d10670f2a2053fa2c39ccc64ec7fd7792ac037a", // order 8
    "c7176a703d4dd84fba3c0b760d10670f2a2053fa2c39ccc64ec7fd7792ac03fa", // order 8
];
/// further encodings that decode (leniently) to small-order points: x = 0 with the sign bit, y >= p
const TORSION_ODD: [&str; 6] = [
    "0100000000000000000000000000000000000000000000000000000000000080", // (0, 1), sign bit set
    "ecffffffffffffffffffffffffffffffffffffffffffffffffffffffffffffff", // (0, -1), sign bit set
    "eeffffffffffffffffffffffffffffffffffffffffffffffffffffffffffff7f", // y = p + 1
    "eeffffffffffffffffffffffffffffffffffffffffffffffffffffffffffffff", // y = p + 1, sign bit set
    "edffffffffffffffffffffffffffffffffffffffffffffffffffffffffffff7f", // y = p
    "edffffffffffffffffffffffffffffffffffffffffffffffffffffffffffffff", // y = p, sign bit set
];

/// S + k*L for k = 1.. while it fits 256 bits, and S with each non-zero value of its top three bits
fn scalar_variants(s: &[u8]) -> Vec<Vec<u8>> {
    let mut out = vec![];
    let mut cur = s.to_vec();
    while let Some(n) = add_l(&cur) { out.push(n.clone()); cur = n; }
    for v in 1u8..8 { let mut t = s.to_vec(); t[31] = (t[31] & 0x1f) | (v << 5); out.push(t); }
    out
}

pub fn generate(g: &mut Gen) {
    g.case(vec!["selftest".to_string()]);
    // EXHAUSTIVE finite domains, every run:
    // (1) check_structure over all 256 x 256 values of (byte 0, byte 31) — the only bytes it reads
    let filler = g.rng.bytes(62);
    g.case(vec![format!("xtable {}", hex(&filler))]);
    // (2) every small-order / oddly encoded public key x every small-order R (+ a non-canonical R), S = 0, 4 messages
    let id_r = "eeffffffffffffffffffffffffffffffffffffffffffffffffffffffffffff7f";
    for pk in TORSION.iter().chain(TORSION_ODD.iter()) {
        let mut ops = vec![];
        for r in TORSION.iter().chain(std::iter::once(&id_r)) {
            for m in 0..4u8 { ops.push(format!("verify {} {:02x} {}{}", pk, m, r, "00".repeat(32))); }
        }
        g.case(ops);
    }
    // (3) for a valid signature: every S + k*L that fits 32 bytes (k = 1..15) and every value of the top three
    //     bits of S; the sign bit of the key and of R flipped; both halves zeroed
    for _ in 0..2 {
        let r = &mut g.rng;
        let sk: [u8; 32] = arr(&r.bytes(32)).unwrap();
        let msg = { let n = r.below(80) as usize; r.bytes(n) };
        let dsk = ed25519_dalek::SigningKey::from_bytes(&sk);
        let pk = dsk.verifying_key().to_bytes().to_vec();
        let sig = dsk.sign(&msg).to_bytes().to_vec();
        let mut ops = vec![format!("verify {} {} {}", hex(&pk), hex(&msg), hex(&sig))];
        for s2 in scalar_variants(&sig[32..]) {
            let mut sg = sig[..32].to_vec(); sg.extend(s2);
            ops.push(format!("verify {} {} {}", hex(&pk), hex(&msg), hex(&sg)));
        }
        let mut p2 = pk.clone(); p2[31] ^= 0x80;
        ops.push(format!("verify {} {} {}", hex(&p2), hex(&msg), hex(&sig)));
        let mut s2 = sig.clone(); s2[31] ^= 0x80;
        ops.push(format!("verify {} {} {}", hex(&pk), hex(&msg), hex(&s2)));
        let mut s3 = sig.clone(); for b in s3[32..].iter_mut() { *b = 0; }
        ops.push(format!("verify {} {} {}", hex(&pk), hex(&msg), hex(&s3)));
        let mut s4 = sig.clone(); for b in s4[..32].iter_mut() { *b = 0; }
        ops.push(format!("verify {} {} {}", hex(&pk), hex(&msg), hex(&s4)));
        g.case(ops);
    }
    let flips = if g.thorough() { 24 } else { 6 };
    for i in 0..g.cases {
        let r = &mut g.rng;
        let mut ops = vec![];
        // standard key
        let sk = match r.below(20) { 0 => vec![0u8; 32], 1 => vec![0xffu8; 32], _ => r.bytes(32) };
        let mlen = match r.below(6) { 0 => 0, 1 => *r.pick(&[1usize, 31, 32, 33, 63, 64, 65, 111, 112, 127, 128, 129, 239, 240, 1024]), _ => r.below(1025) as usize };
        let msg = r.bytes(mlen);
        let sk_a: [u8; 32] = arr(&sk).unwrap();
        let dsk = ed25519_dalek::SigningKey::from_bytes(&sk_a);
        let pk = dsk.verifying_key().to_bytes().to_vec();
        let sig = dsk.sign(&msg).to_bytes().to_vec();
        ops.push(format!("pk {}", hex(&sk)));
        ops.push(format!("sign {} {}", hex(&sk), hex(&msg)));
        ops.push(format!("verify {} {} {}", hex(&pk), hex(&msg), hex(&sig)));
        // single-bit tamperings of message / key / signature
        for _ in 0..flips {
            let (mut p2, mut m2, mut s2) = (pk.clone(), msg.clone(), sig.clone());
            match r.below(3) {
                0 if !m2.is_empty() => { let k = r.below(m2.len() as u64 * 8) as usize; m2[k / 8] ^= 1 << (k % 8); }
                1 => { let k = r.below(256) as usize; p2[k / 8] ^= 1 << (k % 8); }
                _ => { let k = r.below(512) as usize; s2[k / 8] ^= 1 << (k % 8); }
            }
            ops.push(format!("verify {} {} {}", hex(&p2), hex(&m2), hex(&s2)));
        }
        // other manipulations: truncated/extended message, S + L (malleability), random signature, swapped halves
        match r.below(5) {
            0 => { let mut m2 = msg.clone(); m2.push(0); ops.push(format!("verify {} {} {}", hex(&pk), hex(&m2), hex(&sig))); }
            1 => { if let Some(s2) = add_l(&sig[32..]) { let mut sg = sig[..32].to_vec(); sg.extend(s2); ops.push(format!("verify {} {} {}", hex(&pk), hex(&msg), hex(&sg))); } }
            2 => { ops.push(format!("verify {} {} {}", hex(&pk), hex(&msg), hex(&r.bytes(64)))); }
            3 => { ops.push(format!("verify {} {} {}", hex(&r.bytes(32)), hex(&msg), hex(&sig))); }
            _ => { let mut sg = sig[32..].to_vec(); sg.extend(&sig[..32]); ops.push(format!("verify {} {} {}", hex(&pk), hex(&msg), hex(&sg))); }
        }
        // extended key: all 2^3 * 2^2 combinations of the five clamping bits come up (i mod 32), other bits random
        let mut ext = r.bytes(64);
        let combo = (i % 32) as u8;
        ext[0] = (ext[0] & 0xf8) | (combo & 7);
        ext[31] = (ext[31] & 0x3f) | ((combo >> 3) << 6);
        ops.push(format!("xcheck {}", hex(&ext)));
        ops.push(format!("xpk {}", hex(&ext)));
        ops.push(format!("xsign {} {}", hex(&ext), hex(&msg)));
        // a properly clamped extended key, signed and verified
        let mut good = r.bytes(64);
        good[0] &= 0xf8; good[31] &= 0x3f; good[31] |= 0x40;
        if r.chance(1, 8) { for b in good[1..31].iter_mut() { *b = 0; } good[0] = 0; good[31] = 0x40; }
        let esk = ExpandedSecretKey::from_bytes(&arr::<64>(&good).unwrap());
        let xvk = ed25519_dalek::VerifyingKey::from(&esk);
        let xsig = raw_sign::<sha2::Sha512>(&esk, &msg, &xvk).to_bytes().to_vec();
        ops.push(format!("xcheck {}", hex(&good)));
        ops.push(format!("xpk {}", hex(&good)));
        ops.push(format!("xsign {} {}", hex(&good), hex(&msg)));
        ops.push(format!("verify {} {} {}", hex(xvk.as_bytes()), hex(&msg), hex(&xsig)));
        let mut s2 = xsig.clone(); let k = r.below(512) as usize; s2[k / 8] ^= 1 << (k % 8);
        ops.push(format!("verify {} {} {}", hex(xvk.as_bytes()), hex(&msg), hex(&s2)));
        g.case(ops);
    }
    // special encodings of the public key (RFC 8032 §5.1.3) with the signature (R = identity, S = 0)
    let id_sig = format!("01{}{}", "00".repeat(31), "00".repeat(32));
    let specials = [
        format!("01{}", "00".repeat(31)),                    // identity, canonical
        format!("ee{}7f", "ff".repeat(30)),                  // identity, y = p + 1 (non-canonical)
        format!("01{}80", "00".repeat(30)),                  // x = 0 with sign bit
        format!("ec{}7f", "ff".repeat(30)),                  // (0, -1), order 2
        format!("ec{}ff", "ff".repeat(30)),                  // (0, -1) with sign bit
        format!("ed{}7f", "ff".repeat(30)),                  // y = p (non-canonical 0), order 4
        "00".repeat(32),                                     // all-zero key (y = 0, order 4)
        format!("{}80", "00".repeat(31)),                    // y = 0, other root
        format!("02{}", "00".repeat(31)),                    // y = 2: not on the curve
    ];
    for pk in specials.iter() {
        let mut ops = vec![];
        for m in 0..12u8 { ops.push(format!("verify {} {:02x} {}", pk, m, id_sig)); }
        g.case(ops);
    }
}

fn pallas_verify(pk: &[u8; 32], msg: &[u8], sig: &[u8; 64]) -> bool { PublicKey::from(*pk).verify(msg, &Signature::from(*sig)) }

pub fn run_case(case: &Case, out: &mut Out) {
    let (mut accepted, mut rejected) = (false, false);
    for op in &case.ops {
        let a = |i: usize| op.get(i).map(|s| s.as_str()).unwrap_or("");
        match a(0) {
            "selftest" => {
                // RFC 8032 §7.1 TEST 2 through pallas and through the oracle
                let sk: [u8; 32] = arr(&unhex("4ccd089b28ff96da9db6c346ec114e0f5b8a319f35aba624da8cf6ed4fb8a6fb").unwrap()).unwrap();
                let want_pk = "3d4017c3e843895a92b70aa74d1b7ebc9c982ccf2ec4968cc0cd55f12af4660c";
                let want_sig = "92a009a9f0d4cab8720e820b5f642540a2b27b5416503f8fb3762223ebdb69da085ac1e43e15996e458f3613d0f11d8c387b2eaeb4302aeeb00d291612bb0c00";
                let k = SecretKey::from(sk);
                let ok = hex(k.public_key().as_ref()) == want_pk && hex(k.sign([0x72u8]).as_ref()) == want_sig;
                let d = ed25519_dalek::SigningKey::from_bytes(&sk);
                let ok2 = hex(&d.verifying_key().to_bytes()) == want_pk && hex(&d.sign(&[0x72u8]).to_bytes()) == want_sig;
                if !ok { out.viol("rfc8032-test2", "pallas public key / signature differ from RFC 8032 §7.1 TEST 2"); }
                if !ok2 { out.viol("oracle-selftest", "ed25519-dalek differs from RFC 8032 §7.1 TEST 2"); }
                out.ok((ok && ok2).to_string());
            }
            "pk" => {
                let Some(sk) = unhex(a(1)).and_then(|b| arr::<32>(&b)) else { out.reply("bad-op".into()); continue };
                match guard(move || SecretKey::from(sk).public_key()) {
                    Some(pk) => {
                        let want = ed25519_dalek::SigningKey::from_bytes(&sk).verifying_key().to_bytes();
                        if pk.as_ref() != want { out.viol("public-key-differs-from-reference", format!("sk {} -> {} reference {}", hex(&sk), hex(pk.as_ref()), hex(&want))); }
                        out.ok(hex(pk.as_ref()));
                    }
                    None => out.panic(),
                }
            }
            "sign" => {
                let (Some(sk), Some(msg)) = (unhex(a(1)).and_then(|b| arr::<32>(&b)), unhex(a(2))) else { out.reply("bad-op".into()); continue };
                let m2 = msg.clone();
                match guard(move || { let k = SecretKey::from(sk); (k.public_key(), k.sign(&m2)) }) {
                    Some((pk, sig)) => {
                        let d = ed25519_dalek::SigningKey::from_bytes(&sk);
                        let want = d.sign(&msg).to_bytes();
                        if sig.as_ref() != want { out.viol("signature-differs-from-reference", format!("sk {} msg {} bytes", hex(&sk), msg.len())); }
                        if !pk.verify(&msg, &sig) { out.viol("own-signature-rejected kind=standard", format!("sk {} msg {}", hex(&sk), hex(&msg))); }
                        out.ok(hex(sig.as_ref()));
                    }
                    None => out.panic(),
                }
            }
            "xtable" => {
                let Some(filler) = unhex(a(1)).filter(|f| f.len() == 62) else { out.reply("bad-op".into()); continue };
                let mut table = vec![0u8; 256 * 32];
                let mut bad = 0u32;
                for b0 in 0..256usize {
                    for b31 in 0..256usize {
                        let mut ext = [0u8; 64];
                        ext[0] = b0 as u8; ext[1..31].copy_from_slice(&filler[..30]); ext[31] = b31 as u8; ext[32..].copy_from_slice(&filler[30..]);
                        let got = SecretKeyExtended::from_bytes(ext).is_ok();
                        let got2 = SecretKeyExtended::try_from(ext).is_ok();
                        // bit-level reading: low three bits of the scalar clear, bit 254 set, bit 255 clear
                        let want = b0 % 8 == 0 && (b31 >> 6) == 1;
                        if got != want || got2 != want {
                            if bad == 0 {
                                out.viol(format!("clamp-check byte0={:#04x} byte31={:#04x}", b0, b31),
                                    format!("from_bytes accepted={} TryFrom accepted={} expected={} for key {}", got, got2, want, hex(&ext)));
                            }
                            bad += 1;
                        }
                        if got { table[b0 * 32 + b31 / 8] |= 1 << (b31 % 8); }
                    }
                }
                out.cov("clamp-table-65536");
                if bad > 0 { out.cov(format!("clamp-table-mismatches-{bad}")); }
                out.ok(hex(&table));
            }
            "xcheck" | "xpk" | "xsign" => {
                let Some(ext) = unhex(a(1)).and_then(|b| arr::<64>(&b)) else { out.reply("bad-op".into()); continue };
                let msg = unhex(a(2)).unwrap_or_default();
                // bit-level reading of the requirement, independent of the masks in the code
                let want_ok = ext[0] % 8 == 0 && ext[31] >> 6 == 1;
                let got = SecretKeyExtended::from_bytes(ext);
                if got.is_ok() != want_ok { out.viol(format!("clamp-check bits={:03b}/{:02b}", ext[0] & 7, ext[31] >> 6), format!("from_bytes accepted={} expected={}", got.is_ok(), want_ok)); }
                out.cov(format!("clamp-{}", if got.is_ok() { "accepted" } else { "rejected" }));
                match (a(0), got) {
                    ("xcheck", g) => out.ok(g.is_ok().to_string()),
                    (_, Err(_)) => out.err("tweaks"),
                    ("xpk", Ok(k)) => match guard_mut(|| k.public_key()) {
                        Some(pk) => {
                            let want = ed25519_dalek::VerifyingKey::from(&ExpandedSecretKey::from_bytes(&ext)).to_bytes();
                            if pk.as_ref() != want { out.viol("extended-public-key-differs-from-reference", hex(&ext)); }
                            out.ok(hex(pk.as_ref()));
                        }
                        None => out.panic(),
                    },
                    (_, Ok(k)) => match guard_mut(|| (k.public_key(), k.sign(&msg))) {
                        Some((pk, sig)) => {
                            let esk = ExpandedSecretKey::from_bytes(&ext);
                            let vk = ed25519_dalek::VerifyingKey::from(&esk);
                            let want = raw_sign::<sha2::Sha512>(&esk, &msg, &vk).to_bytes();
                            if sig.as_ref() != want { out.viol("extended-signature-differs-from-reference", format!("ext {} msg {} bytes", hex(&ext), msg.len())); }
                            if !pk.verify(&msg, &sig) { out.viol("own-signature-rejected kind=extended", format!("ext {} msg {}", hex(&ext), hex(&msg))); }
                            out.ok(hex(sig.as_ref()));
                        }
                        None => out.panic(),
                    },
                }
            }
            "verify" => {
                let (Some(pk), Some(msg), Some(sig)) = (unhex(a(1)).and_then(|b| arr::<32>(&b)), unhex(a(2)), unhex(a(3)).and_then(|b| arr::<64>(&b))) else { out.reply("bad-op".into()); continue };
                let m2 = msg.clone();
                match guard(move || pallas_verify(&pk, &m2, &sig)) {
                    Some(v) => {
                        // reference verdict: RFC 8032 §5.1.7 with strict decoding of A; the group equation is
                        // taken from ed25519-dalek (cofactorless, canonical S, R compared by encoding)
                        let dalek = ed25519_dalek::VerifyingKey::from_bytes(&pk).ok()
                            .map(|vk| vk.verify(&msg, &ed25519_dalek::Signature::from_bytes(&sig)).is_ok()).unwrap_or(false);
                        let strict_reject = noncanonical_y(&pk) || x_zero_with_sign(&pk);
                        let want = dalek && !strict_reject;
                        if v != want {
                            if v && strict_reject {
                                out.viol(format!("verify-accepts-noncanonical-pk {}", if noncanonical_y(&pk) { "y>=p" } else { "x=0,sign=1" }),
                                    format!("pk {} msg {} sig {} accepted; RFC 8032 5.1.3 decoding of the key fails", hex(&pk), hex(&msg), hex(&sig)));
                            } else if !v && pk == [0u8; 32] {
                                out.viol("verify-rejects-allzero-pk", format!("msg {} sig {}: the all-zero key decodes to a point (order 4) and the RFC 8032 equation holds, pallas/cryptoxide reject the key outright", hex(&msg), hex(&sig)));
                            } else {
                                out.viol(format!("verify-differs-from-reference got={v}"), format!("pk {} msg {} sig {}", hex(&pk), hex(&msg), hex(&sig)));
                            }
                        }
                        if v { accepted = true; out.cov("verify-true"); } else { rejected = true; out.cov("verify-false"); }
                        out.ok(v.to_string());
                    }
                    None => out.panic(),
                }
            }
            _ => out.reply("bad-op".into()),
        }
    }
    if accepted && rejected { out.nontrivial(); }
}
