//! pvh — runs the real pallas code on generated operations, one canonical reply per op.
//!   pvh list
//!   pvh gen <stream> --seed S --cases K --tier quick|thorough      (ops on stdout)
//!   pvh run <stream>                                                (ops on stdin, replies on stdout)
#![allow(clippy::all, dead_code, unused)]
mod fixtures;
mod fw;
mod streams;

use std::io::{Read, Write};

fn arg(args: &[String], k: &str, d: &str) -> String {
    args.iter().position(|a| a == k).and_then(|i| args.get(i + 1)).cloned().unwrap_or(d.to_string())
}

fn main() {
    let args: Vec<String> = std::env::args().skip(1).collect();
    let reg = streams::registry();
    if args.is_empty() || args[0] == "list" {
        for d in &reg { println!("{}", d.name); }
        return;
    }
    let name = args.get(1).cloned().unwrap_or_default();
    let Some(def) = reg.iter().find(|d| d.name == name) else {
        eprintln!("unknown stream {name}");
        std::process::exit(2);
    };
    // panics are outcomes here, not noise
    std::panic::set_hook(Box::new(|_| {}));
    match args[0].as_str() {
        "gen" => {
            let seed: u64 = arg(&args, "--seed", "1").parse().unwrap_or(1);
            let cases: usize = arg(&args, "--cases", "100").parse().unwrap_or(100);
            let tier = arg(&args, "--tier", "quick");
            let mut g = fw::Gen::new(seed, cases, &tier);
            (def.generate)(&mut g);
            std::io::stdout().write_all(g.out.as_bytes()).unwrap();
        }
        "run" => {
            let mut text = String::new();
            std::io::stdin().read_to_string(&mut text).unwrap();
            let res = fw::run_all(def, &text);
            std::io::stdout().write_all(res.as_bytes()).unwrap();
        }
        other => { eprintln!("unknown mode {other}"); std::process::exit(2); }
    }
}
